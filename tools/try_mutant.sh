#!/bin/bash
# usage: tools/try_mutant.sh <patch.diff> <check> [ENV=..] : applies a seeded change to /repo, runs the check, undoes it.
P="$1"; C="$2"; shift 2
cd /repo || exit 2
if [ -n "$(git status --porcelain --untracked-files=no)" ]; then echo "repo dirty"; exit 2; fi
git apply "$P" || { echo "patch does not apply"; exit 2; }
cd /verif && env "$@" ./check "$C" 2>&1 | grep -v "^proptest" | grep -E "VIOLATION|violation key|INCONCLUSIVE|seed=" | cut -c1-400 | head -6
cd /repo && git checkout -q -- . && git status --porcelain --untracked-files=no | head -3
rm -rf /verif/replays/$C/new
