#!/usr/bin/env python3
import json,glob,sys
prop=sys.argv[1]
for f in sorted(glob.glob(f'/verif/replays/{prop}/new/*.json')):
    j=json.load(open(f))
    print('=====',j['key'],f)
    print('   ',j['msg'][:700])
    c=j['case']
    for k,v in c.items():
        if k=='source': print(v)
        elif k=='json_document': print('json_document:',v[:600])
        else: print(f'{k}:',json.dumps(v)[:600])
