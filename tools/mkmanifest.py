#!/usr/bin/env python3
"""Regenerates /verif/MANIFEST.json from the table below (kept in one place so it stays valid)."""
import json, os, subprocess

HERE = os.path.dirname(os.path.dirname(os.path.abspath(__file__)))

CHECKS = {
 "C01": dict(
   category="exploration", design="DESIGN.md §5 C01",
   technique="property-based testing against an independent source-level reference interpreter (reference model): core-Ink programs generated as ASTs (proptest tapes, tape-aware shrinking), compiled by the tree under test and played along every choice path up to a depth/width/path bound; lines, tags, choices, end/error status, final globals and knot/stitch visit counts compared with the interpreter's",
   text="Programs are generated as ASTs over the supported core (knots with parameters, stitches, diverts, weave choices and gathers with once-only/sticky/conditional/fallback/labelled forms and [bracket] text, inline and block conditionals, sequences/cycles/once-only alternatives, VAR/temp int-bool-string arithmetic, read counts, TURNS_SINCE, TURNS, CHOICE_COUNT, tunnels incl. '->-> target', functions with return values, text and ref parameters, threads incl. arguments, glue, tags, inline diverts, DONE/END) and printed in canonical layout. Every path of the bounded choice tree is replayed from a fresh story and from a fresh reference machine (harness/src/refint.rs: own lowering of the AST, call stack with threads, output-stream rules, counting rules); per turn the lines with tags and the choices with tags, at the end of each path every global (typed) and every knot/stitch visit count must agree. Exploration only: programs and bounded paths are sampled.",
   note="Trusted base: the reference interpreter, written from the Ink documentation and the reference engine's documented output rules and cross-checked against the reference-compiled corpus documents where they settle a question (leading line break of conditional branches and fallback choices, the space kept in front of an inline divert, the line break after logic lines that call functions). A continue that yields no text and no tags is not compared; a continue that reports an error is compared by status, not by the text it withheld. Fuel-bounded on both sides."),
 "C07": dict(
   category="exploration", design="DESIGN.md §5 C07",
   technique="property-based testing against an independent reference evaluator: type-directed generated expression trees over int/float/bool/string/list, compiled and played, printed text and typed get_variable value compared with the evaluator's result",
   text="Generator and evaluator are one recursive procedure, so every generated expression carries the value Ink's rules give it (coercion, integer division and remainder, comparisons, logic, MIN/MAX/POW/FLOOR/CEILING/INT/FLOAT, string concatenation and containment, list algebra as sets of (origin, item, value), list comparisons, LIST_* functions, list-from-int, empty lists with and without origins). Programs pack 8-20 expressions, each assigned, printed and printed inline, across choice points. Exploration only.",
   note="The evaluator (harness/src/c07.rs) is the trusted base; constructs whose result Ink leaves open (ties in LIST_MIN/MAX) or makes an error (exactly one list operand) are not generated."),
 "C14": dict(
   category="exploration", design="DESIGN.md §5 C14",
   technique="property-based differential testing between two builds (default loader / streaming loader) over corpus and generated documents with injected hostile strings and value-preserving re-serialisations; digests of audit listing + transcript compared across builds and across forms",
   text="Every document (corpus reference JSON, compiler output for the corpus, compiled generated programs, with hostile strings injected) and its re-serialisations (\\uXXXX escapes incl. surrogate pairs, long-form escapes, pretty-printed with CR/LF/tabs, float-looking number forms) is loaded by both loaders in separate processes; a digest of every object's path and content, the global tags and a bounded exploration must agree; forms (a)-(c) must also agree with the original within a build. Exploration only.",
   note="Listing comes from the content-audit hook; the streaming build is a second build of the same harness (--features stream)."),
 "C18": dict(
   category="exploration", design="DESIGN.md §5 C18",
   technique="property-based testing with a counting global allocator: generated, idiom and corpus programs x generated histories, repeated create-play-drop cycles and repeated reset/load rounds; invariant: live heap bytes return to / stay at the baseline",
   text="The harness binary counts live heap bytes per thread. After two warm-up cycles every create -> play -> drop cycle must leave the live byte count exactly where it was, and repeated reset+replay rounds and repeated load_state of one save on one instance must not raise it above the first measured round. Exploration only.",
   note="Exact equality; per-thread counters; histories are replayed identically in every cycle."),
 "C20": dict(
   category="exploration", design="DESIGN.md §5 C20",
   technique="property-based differential testing of the built rinklecate binary against a model of its documented loop driven by the library: generated programs over a hostile vocabulary x generated input scripts x {plain, JSON} x {-k}; JSON stream parsed object by object; compile mode compared byte for byte with the library and planted compile errors compared with the library's error text",
   text="Each case writes a generated source to a scratch directory and runs the freshly built tool as a child process with a scripted standard input. JSON mode: stdout must be a sequence of well-formed objects of documented kinds whose text/tags/choices equal the model's; plain mode: stdout must be exactly the model's lines, tag lines and numbered choices separated by prompts and the tool's own single lines. -o output must equal Compiler::with_options(count_all_visits, source_filename).compile byte for byte; planted errors must exit non-zero and carry the library's message (with file and line when the library gives them). Exploration only.",
   note="stderr wording during play, help text and banners are not compared. A tool process that dies (panic, signal) is a violation."),
 "C05": dict(
   category="translation_validation", design="DESIGN.md §5 C05",
   technique="differential testing over generated inputs: every corpus (source, reference JSON) pair is compiled and both documents are played by the same runtime along enumerated (breadth-first) and generated (proptest tapes, shrunk) choice paths under several story seeds; transcripts and final globals must be equal",
   text="All 121 pairs. Per pair and seed: breadth-first enumeration of choice paths to a depth and node cap (exhaustive for the small stories; reported per pair as bfs:exhaustive / bfs:bounded), plus generated deep walks weighted towards The Intercept. Lines with tags, choices with tags, end, error kinds and the final values of every global variable must agree; shuffle pairs are aligned by the seed offset computed from the two sequence containers' path texts. Translation validation of these pairs along the explored paths only.",
   note="Both documents run on this runtime. Message texts are not compared."),
 "C06": dict(
   category="exploration", design="DESIGN.md §5 C06",
   technique="fuzzing by source mutation (character, line, bracket, splice, identifier-rename, escape and number-literal mutators over corpus, generated and idiom sources) and token soup, proptest-driven and tape-shrunk, in a worker process under a watchdog; oracles: no panic, error line within the input, output loads, an independent static resolver accepts every emitted reference, compiling twice is byte-identical",
   text="Every input is compiled with a file handler that knows no files. The compiler must return; an error line must lie within 1..=#lines; a compiled story must parse, load with Story::new and pass the harness's own resolver: every ->, ->t->, f(), *, CNT?, ^-> path addresses existing content, every variable token names a declared global, list item or temporary of its flow, every x() names an EXTERNAL. The resolver is first validated against all reference-compiled corpus documents. Exploration only: inputs are sampled.",
   note="A worker exceeding its budget is inconclusive (exit 2). Hangs are therefore bounded, not excluded."),
 "C19": dict(
   category="exploration", design="DESIGN.md §5 C19",
   technique="property-based round-trip testing over every runtime object of corpus and generated stories (content-audit hook): path -> object identity, path text round trip, Eq => Hash, relative paths between object pairs (all pairs for small stories, sampled otherwise)",
   text="For every object of every corpus story (reference JSON and this compiler's output) and of compiled generated programs: its reported path resolves back to it without approximation, parse(text(path)) == path with an equal hash; for pairs of objects the relative path round-trips through text (stays relative, equal hash), resolves to the target, composes with the source path, and the compact path string resolves. Exhaustive over the objects of the documents explored; the documents are sampled.",
   note="Facts are produced by the hook (runtime's own primitives); the judgement is in the harness. Save positions (cPath+idx) are covered by C02."),
 "C12": dict(
   category="exploration", design="DESIGN.md §5 C12",
   technique="property-based testing against a by-construction reference: generated chain programs with external calls in every syntactic position x {safe, unsafe, fallback, disallowed}; call log (arguments, order, lines delivered) and output compared with the reference sequence",
   text="Chain programs place calls to three externals before/inside/after lines, in strings, choice text and conditions, nested and through Ink functions, with unique arguments; the host stub logs every call with the number of lines delivered. Safe mode: log = reference with repeated contiguous blocks; unsafe: exact sequence, never before the preceding line is delivered, refused in strings; fallback and disallowed modes as the property states. Exploration only.",
   note="Reference = source order along the single path of the chain program; values from a pure stub or the Ink fallback bodies."),
 "C13": dict(
   category="exploration", design="DESIGN.md §5 C13",
   technique="property-based testing against an exactly-once model: generated chain programs with planted, uniquely identifiable warning/error sites x reactive host (continue, choose, reset, redirect) x {handler, no handler}",
   text="Warning and error sites of six kinds are planted before, inside and after lines and in choice bodies; every message must reach the handler (or the Err result / readable lists) exactly once per play-through, with the right type, never again on later continues; an error stops the story until reset/redirect; reset clears both lists. Exploration only.",
   note="Sites are recognised by the variable name or knot path in the runtime's message; any message no site explains is reported."),
 "C15": dict(
   category="fault_enumeration", design="DESIGN.md §5 C15",
   technique="fuzzing by structural and textual mutation of valid story documents and saves (proptest-driven, tape-shrunk), exhaustive truncation of small documents, both loaders, in worker processes with crash attribution; oracle: Ok/Err without panic/abort/overflow, bounded fuelled play of accepted stories, reset-after-failed-load equals fresh",
   text="Corruptions of corpus stories, compiled generated programs and saves taken at explored points (tree mutations, numeric extremes, near-miss keys, truncation at every byte of small documents, nesting bombs to depth 100000, byte flips, invalid UTF-8) are fed to Story::new and load_state under the default and the streaming loader in separate processes with 8 MiB stacks; every outcome must be Ok or Err. Fault enumeration: the truncation family is complete for small documents, the rest is sampled.",
   note="A dying worker is re-run per in-flight document to attribute the crash; a wall-clock overrun is reported as inconclusive (exit 2). Loops in a document's own content are cut by fuel (also during construction via the construction-fuel hook) and not judged."),
 "C03": dict(
   category="exploration", design="DESIGN.md §5 C03",
   technique="property-based testing, self-differential: generated scenarios replayed twice in-process, in separate worker processes (fresh hash seeds) and under the release build; digests of compiled bytes, transcript, final view and canonical save must agree",
   text="Generated tie-seeking list programs, shuffles, RANDOM, many globals and flows plus corpus stories under generated histories; every scenario is compiled three times and played twice in-process, then replayed in 3 (quick) / 8 (thorough) fresh worker processes and by the release build; all digests must be equal. Exploration: N processes sample N hash-iteration orders.",
   note="Digest excludes diagnostic message text and the order in which one continue notifies different variables. Worker binaries are the harness built from the same tree (debug and release)."),
 "C08": dict(
   category="exploration", design="DESIGN.md §5 C08",
   technique="property-based testing, metamorphic: generated programs x choice paths x pause schedules over a virtual step clock (every single pause position, pause-after-every-step, generated multi-pause schedules, blocking finish) compared with unsliced play; guarded calls probed at every pause",
   text="Each line is finished by one cont() (reference) or by continue_async slices that pause after chosen numbers of interpreter steps (hook). All single pause positions and the all-ones schedule are enumerated per program, multi-pause schedules are generated; transcripts, notifications, external calls, final view and save must equal the unsliced run; guarded calls must be refused mid-slice without effect. Exploration only.",
   note="Pauses happen only between interpreter steps (hook verif_set_async_step_budget); wall-clock limits select some such schedule."),
 "C10": dict(
   category="exploration", design="DESIGN.md §5 C10",
   technique="property-based testing: generated disjoint flow scripts, exhaustive enumeration of all interleavings of two scripts (sampled for three) with switch-away-and-back, default-flow, save/load and remove_flow variants; oracle = each flow's solo transcript",
   text="Programs are built from name-disjoint generated sub-programs, one per named flow; all interleavings of two host scripts (<= 4 ops each quick, <= 6 thorough) are enumerated and each flow must show exactly what it shows when run alone, also across save -> fresh story -> load, bouncing between flows, and removal of finished flows. Exploration only.",
   note="Disjointness by construction; scripts whose solo run reports an error are discarded (errors halt the whole story by design)."),
 "C11": dict(
   category="exploration", design="DESIGN.md §5 C11",
   technique="property-based testing against a polling reference model: generated programs x generated histories with observers added/removed; notifications checked against get_variable before/after every continue",
   text="A polling model (values of all globals read before and after each continue, set of registered observer/variable pairs) decides every notification: at most one per pair per continue, exactly one if the value changed, carrying the post-continue value, none for unregistered pairs or never-assigned variables; set_variable notifies once immediately; registrations survive reset and load. Exploration only.",
   note="Duplicate registrations are not generated; notifications during reset_state are not judged."),
 "C02": dict(
   category="exploration", design="DESIGN.md §5 C02",
   technique="property-based testing: generated programs and corpus stories x generated histories x every save point; lockstep differential original vs fresh-story+load_state; save-load-save canonical round trip",
   text="At every position between two host calls of a generated history the story is saved, loaded into a freshly constructed story, and both are driven through the remaining history and a tail in lockstep (view right after the load, every later observation, final view, final canonical save; re-save equals the save). Generated-input search over programs with threads, tunnels, functions, lists, RANDOM, several flows, fallback choices, and a float-extremes program family (infinities and NaN in globals); exploration only. One known finding (a NaN global is restored as 0.0) is reported as KNOWN-FINDING.",
   note="Trusted: the harness's transcript/view extraction through the public API and its canonical-JSON comparison (choice `index` caches and diagnostic texts excluded, observer notifications compared by C11 instead). Fuel-bounded."),
 "C09": dict(
   category="exploration", design="DESIGN.md §5 C09",
   technique="property-based testing: generated programs x valid generated histories with invalid host calls injected at generated positions; lockstep differential against the same history without the injections, plus view/save equality around each rejected call",
   text="Each of 29 kinds of invalid host call (also calls whose last argument only is of a refused type, and repeated continues while an external is unbound) is injected at generated positions (mid-paragraph, choice point, end, after an error, in named flows). Each must return Err without panicking, leave the polled view and the canonical save unchanged, and the injected history must behave exactly like the clean one to its end. Exploration only.",
   note="Trusted: harness view/save polling (itself part of both runs). Removing an absent flow/observer and jumping to knot.nostitch (approximated by the engine, as in the reference) may succeed and are then not judged."),
 "C16": dict(
   category="exploration", design="DESIGN.md §5 C16",
   technique="property-based testing: generated programs with pure functions x generated histories with evaluate_function injected (twice) at generated boundaries; lockstep differential against the uninjected history; repeatability of the result; second leg: value and text of the evaluation compared with the independent reference interpreter of C01 played in lockstep",
   text="evaluate_function is injected at generated boundaries of generated histories (int arguments; bool, float, string and list values read back from a global for functions written for any type); the polled view must be identical before and after, the second call must return what the first returned, and the whole history must behave as without the calls (visit counts of functions excluded). Exploration only.",
   note="Purity of the evaluated functions is by generator construction (leg 1) or by inspection of the AST (leg 2). Leg 2 compares the returned value (typed) and the printed text (trailing blanks apart) with the reference interpreter; nothing is evaluated behind an error."),
 "C17": dict(
   category="exploration", design="DESIGN.md §5 C17",
   technique="property-based testing: generated programs and corpus stories x generated histories ending in reset_state; lockstep differential against a fresh story over several continuations; metamorphic relation for choose_path_string(reset=true)",
   text="After an arbitrary generated history (errors, loads, flows, path jumps, failed calls) reset_state must make the story equal to a freshly constructed one with the same seed: immediate view and canonical save, every observation of several continuations, final view and save; registrations keep working. A second relation checks that a path jump with call-stack reset behaves independently of the abandoned stack. Exploration only.",
   note="The seed hook re-applies the story seed after reset (the runtime draws a new random one). Warnings of global declarations are compared as a set across {reset call + replay} and {fresh replay}."),
 "C04": dict(
   category="exploration", design="DESIGN.md §5 C04",
   technique="property-based testing: generated fault-prone programs and corpus mutants x random host-call histories, no-panic validity predicate, wrapping-i32 reference model, reset-vs-fresh differential; debug and release builds",
   text="Generated-input search (proptest tapes, tape-aware shrinking) over compiler-accepted programs biased to faults, under random host-call histories, with and without an error handler, in the debug and the release build. Oracles: no panic (catch_unwind), + - * neg equal a wrapping 32-bit model, and after any reported error reset_state + replay equals a fresh story. Exploration, not proof: it shows absence of panics only on what was generated.",
   note="Trusted: the harness's wrapping model, proptest, catch_unwind-based panic detection (an abort would end the process: exit 2). Fuel-bounded (20000 steps per history)."),
}

ALL = ["C%02d" % i for i in range(1, 21)]

def main():
    fix_commits = subprocess.run(["git", "-C", "/repo", "log", "--format=%h %s"], capture_output=True, text=True).stdout.splitlines()
    hook_commits = [l.split()[0] for l in fix_commits if l.split(" ", 1)[1].startswith("verif-hooks")]
    checks = []
    for pid in ALL:
        if pid not in CHECKS:
            continue
        c = CHECKS[pid]
        checks.append({
            "property_id": pid,
            "quick_cmd": f"./check {pid} --tier quick",
            "thorough_cmd": f"./check {pid} --tier thorough",
            "evidence_file": f"evidence/{pid}.json",
            "replay_cmd_template": f"./check {pid} --replay {{path}}",
            "engine": "inkcheck",
            "level_claimed": {"category": c["category"], "text": c["text"], "design_ref": c["design"]},
            "level_note": c["note"],
            "technique": c["technique"],
        })
    na = [{"property_id": p, "reason": "check not built yet in this session (work in progress; see DESIGN.md §8 order of work) — the technique applies and the check is planned"} for p in ALL if p not in CHECKS]
    m = {
        "version": 1,
        "setup_cmd": "./setup.sh",
        "hooks": {
            "guard": "cargo feature `verif-hooks` of crate bladeink (runtime/Cargo.toml), off by default",
            "enable": "the harness crate /verif/harness depends on bladeink with features=[\"verif-hooks\"] by path (/repo/runtime), so every ./check build has the hooks on",
            "baseline_off_cmd": "cd /repo && cargo test --workspace --no-fail-fast --offline",
            "source_commits": hook_commits,
            "add_only": True,
        },
        "engines": [{
            "name": "inkcheck", "path": "harness",
            "serves_properties": sorted(CHECKS.keys()),
            "kind_free_text": "Rust binary: proptest-driven tape generators for core-Ink programs and host-call histories, tape-aware shrinker, lockstep/differential/model oracles, evidence and replay writers; driven by ./check which rebuilds it against /repo's working tree",
        }],
        "checks": checks,
        "notes": "Exit codes of ./check: 0 held, 1 VIOLATION (line `VIOLATION property=<id> replay=<path>`), 2 inconclusive (build failure, health check, harness fault). Known findings: known_findings.jsonl (read-only at run time). VERIF_SEED selects the proptest RNG streams; VERIF_SCALE scales case counts.",
        "not_applicable": na,
    }
    with open(os.path.join(HERE, "MANIFEST.json"), "w") as f:
        json.dump(m, f, indent=1)
        f.write("\n")

if __name__ == "__main__":
    main()
