#!/usr/bin/env python3
"""Regenerates /verif/MANIFEST.json from the table below (kept in one place so it stays valid)."""
import json, os, subprocess

HERE = os.path.dirname(os.path.dirname(os.path.abspath(__file__)))

CHECKS = {
 "C04": dict(
   category="exploration", design="DESIGN.md §5 C04",
   technique="property-based testing: generated fault-prone programs and corpus mutants x random host-call histories, no-panic validity predicate, wrapping-i32 reference model, reset-vs-fresh differential; debug and release builds",
   text="Generated-input search (proptest tapes, tape-aware shrinking) over compiler-accepted programs biased to faults, under random host-call histories, with and without an error handler, in the debug and the release build. Oracles: no panic (catch_unwind), + - * neg equal a wrapping 32-bit model, and after any reported error reset_state + replay equals a fresh story. Exploration, not proof: it shows absence of panics only on what was generated.",
   note="Trusted: the harness's wrapping model, proptest, catch_unwind-based panic detection (an abort would end the process: exit 2). Fuel-bounded (20000 steps per history)."),
}

ALL = ["C%02d" % i for i in range(1, 21)]

def main():
    fix_commits = subprocess.run(["git", "-C", "/repo", "log", "--format=%h %s"], capture_output=True, text=True).stdout.splitlines()
    hook_commits = [l.split()[0] for l in fix_commits if l.split(" ", 1)[1].startswith("verif-hooks")]
    checks = []
    for pid in ALL:
        if pid not in CHECKS:
            continue
        c = CHECKS[pid]
        checks.append({
            "property_id": pid,
            "quick_cmd": f"./check {pid} --tier quick",
            "thorough_cmd": f"./check {pid} --tier thorough",
            "evidence_file": f"evidence/{pid}.json",
            "replay_cmd_template": f"./check {pid} --replay {{path}}",
            "engine": "inkcheck",
            "level_claimed": {"category": c["category"], "text": c["text"], "design_ref": c["design"]},
            "level_note": c["note"],
            "technique": c["technique"],
        })
    na = [{"property_id": p, "reason": "check not built yet in this session (work in progress; see DESIGN.md §8 order of work) — the technique applies and the check is planned"} for p in ALL if p not in CHECKS]
    m = {
        "version": 1,
        "setup_cmd": "./setup.sh",
        "hooks": {
            "guard": "cargo feature `verif-hooks` of crate bladeink (runtime/Cargo.toml), off by default",
            "enable": "the harness crate /verif/harness depends on bladeink with features=[\"verif-hooks\"] by path (/repo/runtime), so every ./check build has the hooks on",
            "baseline_off_cmd": "cd /repo && cargo test --workspace --no-fail-fast --offline",
            "source_commits": hook_commits,
            "add_only": True,
        },
        "engines": [{
            "name": "inkcheck", "path": "harness",
            "serves_properties": sorted(CHECKS.keys()),
            "kind_free_text": "Rust binary: proptest-driven tape generators for core-Ink programs and host-call histories, tape-aware shrinker, lockstep/differential/model oracles, evidence and replay writers; driven by ./check which rebuilds it against /repo's working tree",
        }],
        "checks": checks,
        "notes": "Exit codes of ./check: 0 held, 1 VIOLATION (line `VIOLATION property=<id> replay=<path>`), 2 inconclusive (build failure, health check, harness fault). Known findings: known_findings.jsonl (read-only at run time). VERIF_SEED selects the proptest RNG streams; VERIF_SCALE scales case counts.",
        "not_applicable": na,
    }
    with open(os.path.join(HERE, "MANIFEST.json"), "w") as f:
        json.dump(m, f, indent=1)
        f.write("\n")

if __name__ == "__main__":
    main()
