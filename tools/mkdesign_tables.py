#!/usr/bin/env python3
"""Regenerates the findings list and the seeded-change matrix inside DESIGN.md (between the BEGIN/END markers)."""
import json, glob, os, re
HERE = os.path.dirname(os.path.dirname(os.path.abspath(__file__)))
def esc(x): return x.replace('|', '\\|').replace('\n', ' ')
rows = []
for d in sorted(glob.glob(os.path.join(HERE, 'seeded', '*', ''))):
    m = json.load(open(os.path.join(d, 'meta.json')))
    rows.append((os.path.basename(d.rstrip('/')), m))
matrix = "| id | breaks | the change | what it needs to manifest | caught by | first result |\n|---|---|---|---|---|---|\n"
for k, m in rows:
    matrix += f"| {k} | {m['breaks']} | {esc(m['change'])} | {esc(m['needs'])} | {esc('; '.join(m['caught_by']) or '-')} | {esc(m['first_result'])} |\n"
byprop = {}
for l in open(os.path.join(HERE, 'known_findings.jsonl')):
    if l.strip():
        f = json.loads(l)
        byprop.setdefault(f['property'], []).append(f)
flist = ""
for pid in sorted(byprop):
    flist += f"\n**{pid}**\n\n"
    for f in byprop[pid]:
        if f['status'] == 'fixed':
            flist += f"* fixed `{f.get('commit', '?')}` — {f['what']}\n"
        else:
            flist += f"* **known** `{f['key']}` — {f['what']}\n"
p = os.path.join(HERE, 'DESIGN.md')
s = open(p).read()
s = re.sub(r"<!-- BEGIN:FINDINGS -->.*?<!-- END:FINDINGS -->", lambda _: "<!-- BEGIN:FINDINGS -->\n" + flist.strip("\n") + "\n<!-- END:FINDINGS -->", s, flags=re.S)
s = re.sub(r"<!-- BEGIN:MATRIX -->.*?<!-- END:MATRIX -->", lambda _: "<!-- BEGIN:MATRIX -->\n" + matrix.strip("\n") + "\n<!-- END:MATRIX -->", s, flags=re.S)
open(p, 'w').write(s)
print("DESIGN.md tables regenerated:", len(rows), "seeded changes,", sum(len(v) for v in byprop.values()), "findings")
