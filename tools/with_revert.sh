#!/bin/bash
# usage: tools/with_revert.sh <fix-commit> <check> [extra env] — reverts one fix in /repo's working tree, runs the check, restores.
c="$1"; p="$2"; shift 2
cd /repo || exit 2
if [ -n "$(git status --porcelain --untracked-files=no)" ]; then echo "repo dirty"; exit 2; fi
git revert --no-commit "$c" >/dev/null 2>&1 || { echo "revert failed (conflict)"; git revert --abort 2>/dev/null; git reset -q --hard; exit 2; }
git reset -q   # keep the change in the working tree only
cd /verif && env "$@" ./check "$p" 2>&1 | grep -v "^proptest" | grep -E "VIOLATION|violation key|INCONCLUSIVE|seed=" | cut -c1-300 | head -6
cd /repo && git checkout -q -- . && git status --porcelain --untracked-files=no | head -3
