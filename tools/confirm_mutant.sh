#!/bin/bash
# usage: tools/confirm_mutant.sh <worktree> : confirms in the scratch worktree that (1) suite passes with patch,
# (2) demo fails with patch, (3) demo passes without patch. Demo expected at OUT/demo.rs -> conformance-tests/tests/seeded_demo.rs
W="$1"; DEMO_FEATURES="${2:-}"
cd "$W" || exit 2
git checkout -q -- . 2>/dev/null
cp OUT/demo.rs conformance-tests/tests/seeded_demo.rs || exit 2
echo "== demo WITHOUT patch"; cargo test -p conformance-tests --test seeded_demo --offline $DEMO_FEATURES 2>&1 | grep -E "^test result|panicked|FAILED" | head -3
git apply OUT/patch.diff || { echo "patch does not apply"; exit 2; }
echo "== demo WITH patch"; cargo test -p conformance-tests --test seeded_demo --offline $DEMO_FEATURES 2>&1 | grep -E "^test result|FAILED" | head -3
rm conformance-tests/tests/seeded_demo.rs
echo "== suite WITH patch"; cargo test --workspace --no-fail-fast --offline 2>&1 | grep -E "^test result|FAILED|failed" | awk '{p+=$4; f+=$6} END{print "passed",p,"failed",f}'
git checkout -q -- .
