#!/bin/bash
# like thorough_all.sh for the checks named in $CHECKS (default: all); runs in a /verif snapshot
set -u
R="$VP_RUN_REPO"
sed -i "s#/repo/#$R/#g" harness/Cargo.toml harness/fuzz/Cargo.toml
sed -i "s#cd /repo#cd $R#g" check setup.sh
sed -i "s#/verif/.build/cli#$PWD/.build/cli#g" setup.sh
export VERIF_REPO="$R"
./setup.sh || echo "SETUP FAILED"
for p in ${CHECKS:-C01 C02 C03 C04 C05 C06 C07 C08 C09 C10 C11 C12 C13 C14 C15 C16 C17 C18 C19 C20}; do
  s=$(date +%s)
  ./check $p --tier thorough 2>&1 | grep -v "^proptest\|^WARNING" | cut -c1-600 | tail -6
  echo "== $p rc=${PIPESTATUS[0]} $(( $(date +%s)-s ))s"
done
