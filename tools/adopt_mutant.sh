#!/bin/bash
# usage: tools/adopt_mutant.sh <worktree> <ID-N> <breaks> : copies OUT/{patch.diff,demo.rs,README.md} into seeded/<ID-N>/ with a meta.json skeleton
W="$1"; ID="$2"; P="$3"
D=/verif/seeded/$ID
mkdir -p "$D" && cp "$W/OUT/patch.diff" "$W/OUT/demo.rs" "$W/OUT/README.md" "$D/" || exit 2
[ -f "$D/meta.json" ] || cat > "$D/meta.json" <<EOM
{
 "breaks": "$P",
 "change": "",
 "needs": "",
 "confirmed": "suite 302/0 with patch; demo fails with patch, passes without (tools/confirm_mutant.sh)",
 "caught_by": [],
 "first_result": ""
}
EOM
echo adopted $D
