import json,glob,sys,os,subprocess
pid=sys.argv[1]; tag=sys.argv[2]  # e.g. C03 C03c
wt=f"/tmp/wt/{tag}"
subprocess.run(["git","-C","/repo","worktree","add","--detach","-f",wt,"HEAD"],check=True,stdout=subprocess.DEVNULL,stderr=subprocess.DEVNULL)
os.makedirs(wt+"/OUT",exist_ok=True)
for l in open('/verif/properties.jsonl'):
    d=json.loads(l)
    if d['id']==pid:
        open(wt+"/OUT/PROPERTY.txt","w").write(json.dumps(d,indent=1))
avoid=[]
for m in sorted(glob.glob(f"/verif/seeded/{pid}-*/meta.json")):
    j=json.load(open(m))
    avoid.append(j.get("change","").replace('#','(hash)'))
av="; ".join(f"({chr(97+i)}) {a}" for i,a in enumerate(avoid))
extra=sys.argv[3] if len(sys.argv)>3 else ""
t=open('/verif/tools/mutant_prompt.tmpl').read()
demo=f"{wt}/rinklecate/tests/seeded_demo.rs" if pid=="C20" else f"{wt}/conformance-tests/tests/seeded_demo.rs"
t=t.replace("__WT__",wt).replace("__AVOID__",av+(" "+extra if extra else "")).replace("__DEMO_PATH__",demo)
open(f"/tmp/wt/{tag}.prompt","w").write(t)
print(tag, len(t))
