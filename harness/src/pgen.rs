//! Program generator: decodes a proptest-generated tape of u16 into a core-Ink AST.
//! All randomness comes from the tape (so proptest shrinks it and a seed replays it);
//! an exhausted tape yields 0 = the simplest alternative everywhere, so generation always
//! terminates and shrinking moves towards smaller programs.
use crate::ast::*;

pub struct Tape<'a> {
    data: &'a [u16],
    pos: usize,
}

impl<'a> Tape<'a> {
    pub fn new(data: &'a [u16]) -> Tape<'a> {
        Tape { data, pos: 0 }
    }
    pub fn next(&mut self) -> u16 {
        let v = self.data.get(self.pos).copied().unwrap_or(0);
        self.pos += 1;
        v
    }
    /// monotone index choice in 0..n (0 when the tape is exhausted)
    pub fn pick(&mut self, n: usize) -> usize {
        if n <= 1 {
            return 0;
        }
        ((self.next() as usize) * n) >> 16
    }
    /// true with probability num/den; false when the tape is exhausted
    pub fn chance(&mut self, num: u32, den: u32) -> bool {
        let v = self.next() as u32;
        v >= 65536 - (65536 * num / den)
    }
    pub fn range(&mut self, lo: i32, hi: i32) -> i32 {
        lo + self.pick((hi - lo + 1) as usize) as i32
    }
    pub fn exhausted(&self) -> bool {
        self.pos >= self.data.len()
    }
    pub fn used(&self) -> usize {
        self.pos
    }
}

#[derive(Debug, Clone)]
pub struct Profile {
    pub max_knots: usize,
    pub max_depth: usize,
    pub lists: bool,
    pub random: bool,
    pub shuffles: bool,
    pub externals: bool,
    pub faults: bool,
    pub threads: bool,
    pub tunnels: bool,
    pub functions: bool,
    pub pure_functions: bool,
    pub turns: bool,
    pub stitches: bool,
    pub labels: bool,
    pub knot_params: bool,
    pub floats: bool,
    /// names get this prefix (used to build disjoint flow scripts)
    pub prefix: String,
    /// plant uniquely identifiable warning/error sites (C13)
    pub back_edges: bool,
    /// allow `-> DONE` terminators and bodies that run off their end
    pub done_and_fall_off: bool,
    /// every fourth program is an idiom program (see idioms.rs) instead of a grammar one
    pub idioms: bool,
    /// never let a body run off its end (C01: runtime errors are C04/C13's subject)
    pub no_fall_off: bool,
    /// inline conditionals / sequences / calls inside choice text, several conditions (C01)
    pub rich_choice_text: bool,
    /// no tags in the text of functions (a tag raised while an expression inside choice text
    /// is half evaluated lands among its operands: an engine quirk, not a language rule)
    pub no_tags_in_functions: bool,
    /// inline conditionals inside sequence alternatives and sequences inside conditional
    /// branches (C01)
    pub nested_inline: bool,
    /// some forward diverts go to a labelled gather inside the target knot instead of its top (C01)
    pub label_diverts: bool,
    /// globals holding divert targets (`VAR d = -> knot`, `~ d = -> other`, `-> d`)
    pub var_diverts: bool,
    /// multi-line sequence blocks `{ stopping: - a - b }` (C01)
    pub block_sequences: bool,
    /// `{ var: - 0: ... - else: ... }` switch blocks (C01)
    pub switch_blocks: bool,
    /// `->-> target` at the end of a tunnel knot
    pub tunnel_onwards: bool,
    /// thread targets with a parameter: `<- knot(arg)`
    pub thread_params: bool,
}

impl Default for Profile {
    fn default() -> Self {
        Profile {
            max_knots: 5,
            max_depth: 2,
            lists: false,
            random: false,
            shuffles: false,
            externals: false,
            faults: false,
            threads: true,
            tunnels: true,
            functions: true,
            pure_functions: false,
            turns: true,
            stitches: true,
            labels: true,
            knot_params: true,
            floats: false,
            prefix: String::new(),
            back_edges: true,
            done_and_fall_off: true,
            idioms: true,
            no_fall_off: false,
            rich_choice_text: true,
            no_tags_in_functions: false,
            nested_inline: true,
            label_diverts: false,
            var_diverts: true,
            block_sequences: true,
            switch_blocks: true,
            tunnel_onwards: true,
            thread_params: true,
        }
    }
}

impl Profile {
    pub fn rich() -> Profile {
        Profile {
            lists: true,
            random: true,
            shuffles: true,
            externals: true,
            ..Profile::default()
        }
    }
}

const WORDS: &[&str] = &[
    "alpha", "bravo", "charlie", "delta", "echo", "foxtrot", "golf", "hotel", "india", "juliet",
    "kilo", "lima", "mike", "november", "oscar", "papa", "quebec", "romeo", "sierra", "tango",
    "Once", "upon", "a", "time,", "the", "end.", "Yes!", "No?", "we", "went", "home;", "it's",
    "fine", "x2", "42", "3.5", "so", "far", "and", "or",
];

#[derive(Clone)]
struct KnotPlan {
    name: String,
    kind: KnotKind,
    params: Vec<String>,
    stitches: Vec<String>,
}

#[derive(Clone)]
struct FuncPlan {
    name: String,
    params: Vec<String>,
    /// parameter passed by reference (`ref x`)
    refs: Vec<bool>,
    ret: Option<Ty>,
}

#[derive(Clone)]
struct Scope {
    temps: Vec<(String, Ty)>,
    /// index into knots (root = None)
    kidx: Option<usize>,
    kind: KnotKind,
    /// index of the function being generated (calls go to higher indices only)
    func: Option<usize>,
    /// stitch index within the knot (None = knot body)
    stitch: Option<usize>,
    path: String,
    ntemps: usize,
}

pub struct Gen<'a> {
    pub t: Tape<'a>,
    pub p: Profile,
    knots: Vec<KnotPlan>,
    funcs: Vec<FuncPlan>,
    globals: Vec<Global>,
    lists: Vec<ListDecl>,
    externals: Vec<External>,
    labels: Vec<String>,
    /// divert variables: (name, floor, possible targets). Every value the variable can take is a
    /// parameterless plain knot (or stitch of one) with index >= floor, and `-> name` is only
    /// written in knots with a lower index, so diverts through variables lead forward too
    dvars: Vec<(String, usize, Vec<String>)>,
    /// labelled gathers: (knot index, full path)
    gather_labels: Vec<(usize, String)>,
    nlabel: usize,
    ntag: usize,
}

pub fn gen_program(tape: &[u16], profile: &Profile) -> Program {
    let mut g = Gen {
        t: Tape::new(tape),
        p: profile.clone(),
        knots: vec![],
        funcs: vec![],
        globals: vec![],
        lists: vec![],
        externals: vec![],
        labels: vec![],
        dvars: vec![],
        gather_labels: vec![],
        nlabel: 0,
        ntag: 0,
    };
    g.program()
}

impl<'a> Gen<'a> {
    fn pre(&self, s: &str) -> String {
        format!("{}{}", self.p.prefix, s)
    }

    fn word(&mut self) -> String {
        WORDS[self.t.pick(WORDS.len())].to_string()
    }

    fn words(&mut self, min: usize, max: usize) -> String {
        let n = min + self.t.pick(max - min + 1);
        let mut v = vec![];
        for _ in 0..n {
            v.push(self.word());
        }
        v.join(" ")
    }

    fn program(&mut self) -> Program {
        // ---- plan
        let nk = 1 + self.t.pick(self.p.max_knots);
        for i in 0..nk {
            let kind = if i == 0 || i + 1 == nk && nk < 3 {
                KnotKind::Plain
            } else {
                match self.t.pick(6) {
                    4 if self.p.tunnels => KnotKind::Tunnel,
                    5 if self.p.threads => KnotKind::ThreadTarget,
                    _ => KnotKind::Plain,
                }
            };
            let mut params = vec![];
            if self.p.knot_params && (kind != KnotKind::ThreadTarget || self.p.thread_params) && i > 0 && self.t.chance(1, 5) {
                params.push(self.pre(&format!("p{i}")));
            }
            let mut stitches = vec![];
            if self.p.stitches && kind == KnotKind::Plain && params.is_empty() {
                let ns = self.t.pick(3);
                for s in 0..ns {
                    stitches.push(self.pre(&format!("s{s}")));
                }
            }
            self.knots.push(KnotPlan {
                name: self.pre(&format!("k{i}")),
                kind,
                params,
                stitches,
            });
        }
        // make sure the last knot is plain, so forward diverts have somewhere to end
        if let Some(last) = self.knots.last_mut() {
            if last.kind != KnotKind::Plain {
                last.kind = KnotKind::Plain;
                last.stitches.clear();
            }
        }
        if self.p.functions {
            let nf = self.t.pick(4);
            for i in 0..nf {
                let np = self.t.pick(3);
                let ret = match self.t.pick(4) {
                    0 | 1 => Some(Ty::Int),
                    2 => None,
                    _ => Some(Ty::Bool),
                };
                let mut refs = vec![false; np];
                if np > 0 && !self.p.pure_functions && self.t.chance(1, 3) {
                    refs[0] = true;
                }
                self.funcs.push(FuncPlan {
                    name: self.pre(&format!("f{i}")),
                    params: (0..np).map(|j| self.pre(&format!("a{j}"))).collect(),
                    refs,
                    ret,
                });
            }
        }
        if self.p.lists {
            let nl = 1 + self.t.pick(3);
            // tie mode: all lists share item names and values (x1 = 1, x2 = 2, ... in each)
            let tie_mode = self.t.chance(1, 3);
            for i in 0..nl {
                let ni = 2 + self.t.pick(3);
                let mut items = vec![];
                let base = if tie_mode { 0 } else { self.t.pick(2) as i32 };
                for j in 0..ni {
                    // values overlap across lists (ties), strictly increasing inside a list
                    let v = base + 1 + j as i32 + if self.t.chance(1, 6) { 1 } else { 0 } * j as i32;
                    // item names are sometimes shared between lists (x1, x2, ... in several
                    // lists): qualified names keep them apart, ties get as tight as possible
                    let name = if tie_mode || self.t.chance(1, 3) {
                        self.pre(&format!("x{}", j + 1))
                    } else {
                        self.pre(&format!("{}{}", (b'a' + i as u8) as char, j + 1))
                    };
                    items.push((name, v, self.t.chance(1, 3)));
                }
                // keep values increasing; now and then two items of one list share a value
                // (legal Ink: the item a number stands for is then a matter of a fixed rule,
                // never of hash order)
                let dup = self.t.chance(1, 6);
                for j in 1..items.len() {
                    if items[j].1 <= items[j - 1].1 {
                        items[j].1 = items[j - 1].1 + 1;
                    }
                }
                if dup && items.len() >= 2 {
                    let j = 1 + self.t.pick(items.len() - 1);
                    items[j].1 = items[j - 1].1;
                    for k in j + 1..items.len() {
                        if items[k].1 <= items[k - 1].1 {
                            items[k].1 = items[k - 1].1 + 1;
                        }
                    }
                }
                self.lists.push(ListDecl {
                    name: self.pre(&format!("L{}", (b'A' + i as u8) as char)),
                    items,
                });
            }
        }
        if self.p.externals {
            let ne = self.t.pick(3);
            for i in 0..ne {
                self.externals.push(External {
                    name: self.pre(&format!("e{i}")),
                    nargs: i % 3,
                    fallback: false,
                });
            }
        }
        let ng = 1 + self.t.pick(6);
        for i in 0..ng {
            let (ty, init) = match self.t.pick(if self.p.lists { 6 } else { 5 }) {
                0 | 1 | 2 => (Ty::Int, Expr::int(self.t.range(0, 5))),
                3 => (Ty::Bool, Expr::Lit(Lit::Bool(self.t.chance(1, 2)))),
                4 => (Ty::Str, Expr::Lit(Lit::Str(self.word()))),
                _ => {
                    let l = self.t.pick(self.lists.len());
                    let init = if self.t.chance(1, 2) {
                        Expr::Var(self.lists[l].name.clone())
                    } else {
                        self.list_lit()
                    };
                    (Ty::List, init)
                }
            };
            self.globals.push(Global {
                name: self.pre(&format!("g{i}")),
                ty,
                init,
            });
        }

        if self.p.var_diverts && self.knots.len() >= 2 && self.t.pick(3) == 2 {
            let nd = 1 + self.t.pick(2);
            for i in 0..nd {
                let floor = 1 + self.t.pick(self.knots.len() - 1);
                let mut targets = vec![];
                for k in self.knots.iter().skip(floor) {
                    // knots only: a divert through a variable to `knot.stitch` from outside the
                    // knot does not count a visit of the knot (in the reference runtime either:
                    // the pointer it makes has index -1), while the direct divert does; which of
                    // the two is "right" the documentation does not say
                    if k.kind == KnotKind::Plain && k.params.is_empty() {
                        targets.push(k.name.clone());
                    }
                }
                if targets.is_empty() {
                    continue;
                }
                let name = self.pre(&format!("dv{i}"));
                let init = targets[self.t.pick(targets.len())].clone();
                self.globals.push(Global {
                    name: name.clone(),
                    ty: Ty::Divert,
                    init: Expr::DivertTarget(init),
                });
                self.dvars.push((name, floor, targets));
            }
        }

        // ---- bodies
        let mut prog = Program::default();
        let mut sc = Scope {
            temps: vec![],
            kidx: None,
            kind: KnotKind::Plain,
            func: None,
            stitch: None,
            path: String::new(),
            ntemps: 0,
        };
        prog.root = self.block(&mut sc, 0, true);
        for i in 0..self.knots.len() {
            let plan = self.knots[i].clone();
            let mut sc = Scope {
                temps: plan.params.iter().map(|p| (p.clone(), Ty::Int)).collect(),
                kidx: Some(i),
                kind: plan.kind.clone(),
                func: None,
                stitch: None,
                path: plan.name.clone(),
                ntemps: 0,
            };
            let body = self.block(&mut sc, 0, true);
            let mut stitches = vec![];
            for (si, sname) in plan.stitches.iter().enumerate() {
                let mut sc = Scope {
                    temps: vec![],
                    kidx: Some(i),
                    kind: plan.kind.clone(),
                    func: None,
                    stitch: Some(si),
                    path: format!("{}.{}", plan.name, sname),
                    ntemps: 0,
                };
                stitches.push(Stitch {
                    name: sname.clone(),
                    body: self.block(&mut sc, 0, true),
                });
            }
            prog.knots.push(Knot {
                name: plan.name.clone(),
                kind: plan.kind.clone(),
                params: plan.params.clone(),
                body,
                stitches,
            });
        }
        for i in 0..self.funcs.len() {
            let plan = self.funcs[i].clone();
            let mut sc = Scope {
                temps: plan.params.iter().map(|p| (p.clone(), Ty::Int)).collect(),
                kidx: None,
                kind: KnotKind::Plain,
                func: Some(i),
                stitch: None,
                path: plan.name.clone(),
                ntemps: 0,
            };
            let mut body = vec![];
            let n = self.t.pick(4);
            for k in 0..n {
                let s = self.simple_stmt(&mut sc, 0);
                body.push(s);
                if plan.refs.first() == Some(&true) && (k == 0 || self.t.chance(1, 2)) {
                    // assignment through the reference, typically after a printed line
                    body.push(Stmt::Assign(
                        plan.params[0].clone(),
                        Expr::Bin(
                            "+",
                            Box::new(Expr::Var(plan.params[0].clone())),
                            Box::new(Expr::int(1)),
                        ),
                    ));
                }
            }
            if plan.refs.first() == Some(&true) && n == 0 {
                body.push(Stmt::Line(self.text_line(&sc, false)));
                body.push(Stmt::AssignOp(plan.params[0].clone(), "+=", Expr::int(2)));
            }
            match &plan.ret {
                Some(Ty::Int) => body.push(Stmt::Return(Some(self.int_expr(&sc, 2)))),
                Some(Ty::Bool) => body.push(Stmt::Return(Some(self.bool_expr(&sc, 2)))),
                _ => {
                    if body.is_empty() {
                        body.push(Stmt::Line(self.text_line(&sc, false)));
                    }
                }
            }
            prog.functions.push(Function {
                name: plan.name.clone(),
                params: plan
                    .params
                    .iter()
                    .zip(plan.refs.iter())
                    .map(|(p, r)| if *r { format!("ref {p}") } else { p.clone() })
                    .collect(),
                body,
                ret: plan.ret.clone(),
                pure_fn: self.p.pure_functions,
            });
        }
        if self.p.label_diverts && !self.gather_labels.is_empty() {
            // forward diverts to a knot may enter it at one of its labelled top-level gathers
            // (only into knots that declare no temporaries: jumping over a declaration leaves
            // the temporary undeclared, which is the subject of C13's warnings, not of this pass)
            let labels: Vec<(usize, String)> = self
                .gather_labels
                .iter()
                .filter(|(k, path)| {
                    fn has_temps(b: &Block) -> bool {
                        b.stmts.iter().any(|s| matches!(s, Stmt::TempDecl(..)))
                            || b.group.as_ref().map(|g| {
                                g.choices.iter().any(|c| has_temps(&c.body))
                                    || g.gather.as_ref().map(|(_, rest)| has_temps(rest)).unwrap_or(false)
                            }).unwrap_or(false)
                    }
                    let parts: Vec<&str> = path.split('.').collect();
                    if parts.len() == 3 {
                        !prog.knots[*k].stitches.iter().any(|st| st.name == parts[1] && has_temps(&st.body))
                    } else {
                        !has_temps(&prog.knots[*k].body)
                    }
                })
                .cloned()
                .collect();
            let knot_index: std::collections::HashMap<String, usize> =
                self.knots.iter().enumerate().map(|(i, k)| (k.name.clone(), i)).collect();
            // (decisions of this pass come from a generator seeded by the start of the tape: the
            // tape itself is usually used up by now)
            struct Lcg(u64);
            impl Lcg {
                fn next(&mut self) -> u64 {
                    self.0 = self.0.wrapping_mul(6364136223846793005).wrapping_add(1442695040888963407);
                    self.0 >> 33
                }
                fn chance(&mut self, num: u64, den: u64) -> bool {
                    self.next() % den < num
                }
                fn pick(&mut self, n: usize) -> usize {
                    (self.next() % n.max(1) as u64) as usize
                }
            }
            fn visit(b: &mut Block, from: Option<usize>, labels: &[(usize, String)], ki: &std::collections::HashMap<String, usize>, t: &mut Lcg) {
                for s in b.stmts.iter_mut() {
                    if let Stmt::Divert(target, args) = s {
                        if args.is_empty() {
                            if let Some(&k) = ki.get(target.as_str()) {
                                if from.map(|f| k > f).unwrap_or(true) {
                                    let c: Vec<&(usize, String)> = labels.iter().filter(|(lk, _)| *lk == k).collect();
                                    if !c.is_empty() && t.chance(3, 4) {
                                        *target = c[t.pick(c.len())].1.clone();
                                    }
                                }
                            }
                        }
                    }
                }
                if let Some(g) = b.group.as_mut() {
                    for c in g.choices.iter_mut() {
                        visit(&mut c.body, from, labels, ki, t);
                    }
                    if let Some((_, rest)) = g.gather.as_mut() {
                        visit(rest, from, labels, ki, t);
                    }
                }
            }
            let mut rng = Lcg(self.t.data.iter().take(6).fold(0x9E37u64, |a, v| a.wrapping_mul(31).wrapping_add(*v as u64)));
            visit(&mut prog.root, None, &labels, &knot_index, &mut rng);
            for (i, k) in prog.knots.iter_mut().enumerate() {
                visit(&mut k.body, Some(i), &labels, &knot_index, &mut rng);
                for st in k.stitches.iter_mut() {
                    visit(&mut st.body, Some(i), &labels, &knot_index, &mut rng);
                }
            }
        }
        prog.globals = self.globals.clone();
        prog.lists = self.lists.clone();
        prog.externals = self.externals.clone();
        prog
    }

    // ---------------------------------------------------------------- targets

    /// plain forward targets (knots with higher index, their stitches, later local stitches)
    fn forward_targets(&mut self, sc: &Scope) -> Vec<(String, usize)> {
        let mut v = vec![];
        let from = match sc.kidx {
            None => 0,
            Some(i) => i + 1,
        };
        if let Some(i) = sc.kidx {
            let plan = &self.knots[i];
            let first = match sc.stitch {
                None => 0,
                Some(s) => s + 1,
            };
            for s in first..plan.stitches.len() {
                v.push((format!("{}.{}", plan.name, plan.stitches[s]), 0));
            }
        }
        for j in from..self.knots.len() {
            let k = &self.knots[j];
            if k.kind == KnotKind::Plain {
                v.push((k.name.clone(), k.params.len()));
                for s in &k.stitches {
                    v.push((format!("{}.{}", k.name, s), 0));
                }
            }
        }
        // a divert variable all of whose values lie ahead
        for (name, floor, _) in &self.dvars {
            if *floor >= from && sc.func.is_none() {
                v.push((name.clone(), 0));
            }
        }
        v
    }

    fn any_plain_targets(&self) -> Vec<(String, usize)> {
        let mut v = vec![];
        for k in &self.knots {
            if k.kind == KnotKind::Plain {
                v.push((k.name.clone(), k.params.len()));
            }
        }
        v
    }

    fn divert_to(&mut self, sc: &Scope, name: String, nparams: usize) -> Stmt {
        let args = (0..nparams).map(|_| self.int_expr(sc, 1)).collect();
        Stmt::Divert(name, args)
    }

    /// `<- name(args)`: a thread start with an argument for every parameter of the target
    fn thread_stmt(&mut self, sc: &Scope, name: String) -> Stmt {
        let np = self.knots.iter().find(|k| k.name == name).map(|k| k.params.len()).unwrap_or(0);
        let args = (0..np).map(|_| self.int_expr(sc, 1)).collect();
        Stmt::Thread(name, args)
    }

    /// how a body that must not fall off the end terminates
    fn terminal(&mut self, sc: &Scope) -> Stmt {
        if sc.func.is_some() {
            return Stmt::Return(None);
        }
        match sc.kind {
            KnotKind::Tunnel => {
                // `->-> target`: the tunnel goes on somewhere else instead of returning
                if self.p.tunnel_onwards && self.t.chance(2, 5) {
                    let f: Vec<(String, usize)> = self
                        .forward_targets(sc)
                        .into_iter()
                        .filter(|(n, _)| !self.dvars.iter().any(|d| &d.0 == n))
                        .collect();
                    if !f.is_empty() {
                        let (n, np) = f[self.t.pick(f.len())].clone();
                        let args = (0..np).map(|_| self.int_expr(sc, 1)).collect();
                        return Stmt::TunnelOnwards(n, args);
                    }
                }
                Stmt::TunnelReturn
            }
            KnotKind::ThreadTarget => Stmt::Done,
            KnotKind::Plain => {
                // occasionally `-> DONE` (safe exit; pending fallback choices still run)
                if self.p.done_and_fall_off && self.t.chance(1, 8) {
                    return Stmt::Done;
                }
                let f = self.forward_targets(sc);
                if f.is_empty() {
                    return Stmt::End;
                }
                let c = self.t.pick(f.len() + 1);
                if c >= f.len() {
                    Stmt::End
                } else {
                    let (n, np) = f[c].clone();
                    self.divert_to(sc, n, np)
                }
            }
        }
    }

    fn target_string(&mut self, sc: &Scope, s: Stmt) -> Option<String> {
        match s {
            Stmt::Divert(n, args) => {
                if args.is_empty() {
                    Some(n)
                } else {
                    // a divert with arguments stays a statement in the choice body
                    None
                }
            }
            Stmt::End => Some("END".into()),
            Stmt::Done => Some("DONE".into()),
            Stmt::TunnelReturn => {
                let _ = sc;
                None
            }
            _ => None,
        }
    }

    // ---------------------------------------------------------------- blocks

    /// `must_end`: the block's flow must not fall off its end (no enclosing gather)
    fn block(&mut self, sc: &mut Scope, depth: usize, must_end: bool) -> Block {
        let mut b = Block::default();
        // temps are declared at the top of a knot/stitch body so every path sees them
        if depth == 0 && sc.func.is_none() {
            let nt = self.t.pick(3);
            for _ in 0..nt {
                let name = self.pre(&format!("t{}", sc.ntemps));
                sc.ntemps += 1;
                let (ty, e) = match self.t.pick(4) {
                    0 | 1 | 2 => (Ty::Int, self.int_expr(sc, 1)),
                    _ => (Ty::Bool, self.bool_expr(sc, 1)),
                };
                b.stmts.push(Stmt::TempDecl(name.clone(), e));
                sc.temps.push((name, ty));
            }
        }
        let n = self.t.pick(5);
        let mut prev_line = false;
        for _ in 0..n {
            let s = if prev_line && self.t.chance(1, 2) {
                self.stressor(sc)
            } else {
                self.stmt(sc, depth)
            };
            prev_line = matches!(s, Stmt::Line(_));
            let is_term = matches!(&s, Stmt::Line(l) if l.divert.is_some());
            b.stmts.push(s);
            if is_term {
                return b;
            }
        }
        let want_group = depth < self.p.max_depth
            && sc.func.is_none()
            && self.t.chance(if depth == 0 { 3 } else { 1 }, if depth == 0 { 4 } else { 3 });
        if want_group {
            // optionally start threads right before the choices
            if self.p.threads && sc.kind == KnotKind::Plain && depth == 0 {
                let tt: Vec<String> = self
                    .knots
                    .iter()
                    .enumerate()
                    .filter(|(j, k)| {
                        k.kind == KnotKind::ThreadTarget && sc.kidx.map(|i| *j > i).unwrap_or(true)
                    })
                    .map(|(_, k)| k.name.clone())
                    .collect();
                if !tt.is_empty() && self.t.chance(1, 2) {
                    let k = self.t.pick(tt.len());
                    let th = self.thread_stmt(sc, tt[k].clone());
                    b.stmts.push(th);
                }
            }
            b.group = Some(self.group(sc, depth, must_end));
        } else if must_end
            && self.p.threads
            && self.p.done_and_fall_off
            && sc.kind == KnotKind::Plain
            && sc.func.is_none()
            && self.t.chance(1, 3)
            && self
                .knots
                .iter()
                .enumerate()
                .any(|(j, k)| k.kind == KnotKind::ThreadTarget && sc.kidx.map(|i| j > i).unwrap_or(true))
        {
            // "offer the options of a thread, then stop": `<- options` + `-> DONE`
            let tt: Vec<String> = self
                .knots
                .iter()
                .enumerate()
                .filter(|(j, k)| k.kind == KnotKind::ThreadTarget && sc.kidx.map(|i| *j > i).unwrap_or(true))
                .map(|(_, k)| k.name.clone())
                .collect();
            let k = self.t.pick(tt.len());
            let th = self.thread_stmt(sc, tt[k].clone());
                    b.stmts.push(th);
            // `-> END` instead of `-> DONE` ends the story whatever the thread offered
            if self.t.chance(1, 4) {
                b.stmts.push(Stmt::End);
            } else {
                b.stmts.push(Stmt::Done);
            }
        } else if must_end {
            // occasionally the author forgot the terminator: content simply runs out
            // (an error, unless the flow already made a safe exit)
            let odds = if sc.kind == KnotKind::ThreadTarget { 3 } else { 14 };
            if self.p.done_and_fall_off && sc.func.is_none() && self.t.chance(1, odds) && !self.p.no_fall_off {
                return b;
            }
            let t = self.terminal(sc);
            b.stmts.push(t);
        }
        b
    }

    fn group(&mut self, sc: &mut Scope, depth: usize, must_end: bool) -> ChoiceGroup {
        let nc = 1 + self.t.pick(4);
        let has_gather = sc.kind != KnotKind::ThreadTarget && (self.t.chance(2, 3) || !must_end && false);
        let mut choices = vec![];
        let mut has_back_edge = false;
        for ci in 0..nc {
            let sticky = self.t.chance(1, 4);
            let label = if self.p.labels && self.t.chance(1, 5) {
                Some(self.new_label(sc))
            } else {
                None
            };
            let mut conds = vec![];
            if self.t.chance(1, 4) {
                conds.push(self.bool_expr(sc, 1));
            } else if sc.kind == KnotKind::ThreadTarget && self.t.chance(1, 2) {
                // options that are not on offer right now (leaves only the fallback)
                conds.push(Expr::Lit(Lit::Bool(false)));
            }
            let mut start = if self.t.chance(5, 6) {
                vec![Inline::Text(self.words(1, 3))]
            } else {
                vec![]
            };
            if self.p.rich_choice_text && !start.is_empty() && self.t.chance(1, 5) {
                start.push(Inline::Text(" ".into()));
                start.extend(self.choice_inline(sc, true));
            }
            if self.p.rich_choice_text && !conds.is_empty() && self.t.chance(1, 3) {
                conds.push(self.bool_expr(sc, 1));
            }
            let bracket = if start.is_empty() || self.t.chance(1, 2) {
                let mut v = vec![Inline::Text(self.words(if start.is_empty() { 1 } else { 0 }, 2))];
                if self.t.chance(1, 8) {
                    v.push(Inline::Expr(self.int_expr(sc, 1)));
                }
                if self.p.rich_choice_text && self.t.chance(1, 5) {
                    v.push(Inline::Text(" ".into()));
                    v.extend(self.choice_inline(sc, false));
                }
                Some(v)
            } else {
                None
            };
            let mut end = if self.t.chance(1, 2) {
                vec![Inline::Text(format!(" {}", self.words(1, 2)))]
            } else {
                vec![]
            };
            if self.p.rich_choice_text && !end.is_empty() && self.t.chance(1, 5) {
                end.push(Inline::Text(" ".into()));
                let no_bracket = bracket.is_none();
                end.extend(self.choice_inline(sc, no_bracket));
            }
            let mut tags = vec![];
            if self.t.chance(1, 8) {
                tags.push(self.tag());
            }
            // divert on the choice line: may go anywhere (consumes a player choice)
            let mut divert = None;
            let mut body = Block::default();
            let style = self.t.pick(4);
            if style == 3 || (!has_gather && style == 2) {
                // choice line diverts directly
                let all = if self.p.back_edges && sc.kind != KnotKind::Tunnel {
                    self.any_plain_targets()
                } else {
                    self.forward_targets(sc)
                };
                let all: Vec<_> = all.into_iter().filter(|(_, np)| *np == 0).collect();
                if !all.is_empty() {
                    let k = self.t.pick(all.len());
                    if let Some(i) = sc.kidx {
                        if let Some(pos) = self.knots.iter().position(|kk| kk.name == all[k].0) {
                            if pos <= i {
                                has_back_edge = true;
                            }
                        }
                    }
                    divert = Some(all[k].0.clone());
                } else if sc.kind == KnotKind::Plain {
                    divert = Some("END".into());
                }
            }
            if divert.is_none() {
                body = self.block(sc, depth + 1, !has_gather);
            }
            choices.push(Choice {
                sticky,
                label,
                conds,
                fallback: false,
                start,
                bracket,
                end,
                tags,
                divert,
                body,
            });
            let _ = ci;
        }
        // fallback choice: once-only, taken when nothing else is on offer
        let want_fallback = if has_back_edge || !has_gather {
            self.t.chance(3, 4)
        } else {
            self.t.chance(1, 6)
        };
        if want_fallback {
            let mut fb = Choice {
                sticky: false,
                label: None,
                conds: vec![],
                fallback: true,
                start: vec![],
                bracket: None,
                end: vec![],
                tags: vec![],
                divert: None,
                body: Block::default(),
            };
            if has_gather && self.t.chance(1, 2) {
                // `* ->` followed by a body that falls to the gather
                fb.body = self.block(sc, depth + 1, false);
            } else if self.t.chance(1, 3) {
                // `* ->` followed by its own content (which may forget its terminator)
                fb.body = self.block(sc, depth + 1, true);
            } else {
                let t = self.terminal(sc);
                match self.target_string(sc, t.clone()) {
                    Some(s) => fb.divert = Some(s),
                    None => {
                        fb.body.stmts.push(t);
                    }
                }
            }
            choices.push(fb);
        }
        let gather = if has_gather {
            let label = if self.p.labels && self.t.chance(1, 4) {
                let l = self.new_label(sc);
                if let (Some(k), false) = (sc.kidx, sc.path.is_empty()) {
                    if sc.kind == KnotKind::Plain && depth == 0 {
                        self.gather_labels.push((k, format!("{}.{}", sc.path, l)));
                    }
                }
                Some(l)
            } else {
                None
            };
            let line = if self.t.chance(2, 3) {
                Some(self.text_line(sc, false))
            } else {
                None
            };
            let rest = self.block(sc, depth, must_end);
            Some((Gather { label, line }, Box::new(rest)))
        } else {
            None
        };
        ChoiceGroup { choices, gather }
    }

    /// inline logic inside choice text: a conditional, a sequence, or a printed value
    /// `in_start`: the piece lands in the text that is shown on the choice AND on the chosen
    /// line; a sequence there meets a listed known finding, so it is produced rarely
    fn choice_inline(&mut self, sc: &Scope, in_start: bool) -> Vec<Inline> {
        let _ = in_start;
        let k = self.t.pick(8);
        match k {
            0 => {
                let c = self.bool_expr(sc, 1);
                let a = vec![Inline::Text(self.words(1, 2))];
                let b = if self.t.chance(1, 2) { vec![Inline::Text(self.words(1, 2))] } else { vec![] };
                vec![Inline::Cond(c, a, b)]
            }
            1 | 2 | 3 => {
                let kind = match self.t.pick(3) {
                    0 => SeqKind::Stopping,
                    1 => SeqKind::Cycle,
                    _ => SeqKind::Once,
                };
                let na = 2 + self.t.pick(2);
                let alts = (0..na).map(|_| vec![Inline::Text(self.words(1, 2))]).collect();
                vec![Inline::Seq(kind, alts)]
            }
            _ => vec![Inline::Expr(self.printable_expr(sc))],
        }
    }

    fn new_label(&mut self, sc: &Scope) -> String {
        let l = self.pre(&format!("l{}", self.nlabel));
        self.nlabel += 1;
        if !sc.path.is_empty() {
            self.labels.push(format!("{}.{}", sc.path, l));
        }
        l
    }

    fn tag(&mut self) -> String {
        self.ntag += 1;
        format!("tag{}", self.t.pick(4))
    }

    // ---------------------------------------------------------------- statements

    fn stressor(&mut self, sc: &mut Scope) -> Stmt {
        // statements whose effect would be doubled or lost by a wrong rewind
        let ints: Vec<String> = self
            .globals
            .iter()
            .filter(|g| g.ty == Ty::Int)
            .map(|g| g.name.clone())
            .collect();
        match self.t.pick(4) {
            0 | 1 if !ints.is_empty() && !(self.p.pure_functions && sc.func.is_some()) => {
                let v = ints[self.t.pick(ints.len())].clone();
                Stmt::Assign(
                    v.clone(),
                    Expr::Bin("+", Box::new(Expr::Var(v)), Box::new(Expr::int(1))),
                )
            }
            2 => {
                let mut l = self.text_line(sc, false);
                l.parts.insert(0, Inline::Glue);
                Stmt::Line(l)
            }
            _ => self.stmt(sc, 1),
        }
    }

    fn stmt(&mut self, sc: &mut Scope, depth: usize) -> Stmt {
        let in_func = sc.func.is_some();
        match self.t.pick(10) {
            0 | 1 | 2 | 3 => Stmt::Line(self.text_line(sc, !in_func)),
            4 | 5 => self.assign(sc),
            6 if self.p.switch_blocks && !self.vars_of(sc, Ty::Int).is_empty() && self.t.chance(1, 3) => {
                let vars = self.vars_of(sc, Ty::Int);
                let var = vars[self.t.pick(vars.len())].clone();
                let nc = 1 + self.t.pick(3);
                let mut cases = vec![];
                let mut used = vec![];
                for _ in 0..nc {
                    let v = self.t.range(0, 4);
                    if used.contains(&v) {
                        continue;
                    }
                    used.push(v);
                    let n = 1 + self.t.pick(2);
                    let body = (0..n).map(|_| self.simple_stmt(sc, depth + 1)).collect();
                    cases.push((v, body));
                }
                let els = if self.t.chance(1, 2) {
                    Some(vec![self.simple_stmt(sc, depth + 1)])
                } else {
                    None
                };
                Stmt::Switch(var, cases, els)
            }
            6 => {
                // block conditional
                let nb = 1 + self.t.pick(2);
                let mut br = vec![];
                for _ in 0..nb {
                    let c = self.bool_expr(sc, 2);
                    let n = 1 + self.t.pick(2);
                    let mut body = vec![];
                    for _ in 0..n {
                        body.push(self.simple_stmt(sc, depth + 1));
                    }
                    br.push((c, body));
                }
                let els = if self.t.chance(1, 2) {
                    let n = 1 + self.t.pick(2);
                    let mut body = vec![];
                    for _ in 0..n {
                        body.push(self.simple_stmt(sc, depth + 1));
                    }
                    Some(body)
                } else {
                    None
                };
                Stmt::If(br, els)
            }
            7 => {
                // tunnel call
                if self.p.tunnels && !in_func {
                    let from = match (sc.kidx, &sc.kind) {
                        (Some(i), KnotKind::Tunnel) => i + 1,
                        (Some(i), KnotKind::ThreadTarget) => i + 1,
                        _ => 0,
                    };
                    let tt: Vec<(String, usize)> = self
                        .knots
                        .iter()
                        .enumerate()
                        .filter(|(j, k)| k.kind == KnotKind::Tunnel && *j >= from)
                        .map(|(_, k)| (k.name.clone(), k.params.len()))
                        .collect();
                    if !tt.is_empty() {
                        let k = self.t.pick(tt.len());
                        let args = (0..tt[k].1).map(|_| self.int_expr(sc, 1)).collect();
                        return Stmt::Tunnel(tt[k].0.clone(), args);
                    }
                }
                Stmt::Line(self.text_line(sc, false))
            }
            9 if self.p.threads && sc.kind == KnotKind::Plain && !in_func && self.t.chance(1, 2) => {
                // a thread started in the middle of a knot: its text and choices come first,
                // then the knot goes on (other threads and more lines may follow)
                let tt: Vec<String> = self
                    .knots
                    .iter()
                    .enumerate()
                    .filter(|(j, k)| k.kind == KnotKind::ThreadTarget && sc.kidx.map(|i| *j > i).unwrap_or(true))
                    .map(|(_, k)| k.name.clone())
                    .collect();
                if tt.is_empty() {
                    Stmt::Line(self.text_line(sc, false))
                } else {
                    let k = self.t.pick(tt.len());
                    self.thread_stmt(sc, tt[k].clone())
                }
            }
            8 if self.p.block_sequences && !in_func && self.t.chance(1, 2) => {
                let kind = match self.t.pick(3) {
                    0 => SeqKind::Stopping,
                    1 => SeqKind::Cycle,
                    _ => SeqKind::Once,
                };
                let nb = 2 + self.t.pick(2);
                let mut br = vec![];
                for _ in 0..nb {
                    let mut lines = vec![self.text_line(sc, false)];
                    if self.t.chance(1, 3) {
                        lines.push(self.text_line(sc, false));
                    }
                    br.push(lines);
                }
                Stmt::SeqBlock(kind, br)
            }
            8 => {
                // call statement
                if let Some((name, args)) = self.callable(sc, None) {
                    return Stmt::Call(name, args);
                }
                self.assign(sc)
            }
            _ => Stmt::Line(self.text_line(sc, false)),
        }
    }

    /// statements allowed inside conditional branches and functions (no weave)
    fn simple_stmt(&mut self, sc: &mut Scope, _depth: usize) -> Stmt {
        match self.t.pick(5) {
            0 | 1 | 2 => Stmt::Line(self.text_line(sc, false)),
            3 => self.assign(sc),
            _ => {
                if let Some((name, args)) = self.callable(sc, None) {
                    Stmt::Call(name, args)
                } else {
                    self.assign(sc)
                }
            }
        }
    }

    fn assign(&mut self, sc: &mut Scope) -> Stmt {
        let pure_ctx = self.p.pure_functions && sc.func.is_some();
        let mut targets: Vec<(String, Ty)> = vec![];
        if !pure_ctx {
            targets.extend(self.globals.iter().map(|g| (g.name.clone(), g.ty.clone())));
        }
        // params of functions are values; assigning to them is legal but rarely interesting
        targets.extend(
            sc.temps
                .iter()
                .filter(|(n, _)| n.contains('t'))
                .map(|(n, t)| (n.clone(), t.clone())),
        );
        if targets.is_empty() {
            return Stmt::Line(self.text_line(sc, false));
        }
        let (name, ty) = targets[self.t.pick(targets.len())].clone();
        match ty {
            Ty::Int => {
                if self.t.chance(1, 4) {
                    let op = if self.t.chance(1, 2) { "+=" } else { "-=" };
                    Stmt::AssignOp(name, op, self.int_expr(sc, 1))
                } else {
                    Stmt::Assign(name, self.int_expr(sc, 2))
                }
            }
            Ty::Bool => Stmt::Assign(name, self.bool_expr(sc, 2)),
            Ty::Str => {
                // never concatenate variables into a string variable: sticky loops would
                // double its length on every pass (exponential memory, not a runtime defect)
                let e = match self.t.pick(3) {
                    0 => Expr::Lit(Lit::Str(self.word())),
                    1 => Expr::Bin(
                        "+",
                        Box::new(Expr::Lit(Lit::Str(self.word()))),
                        Box::new(self.int_expr(sc, 1)),
                    ),
                    _ => {
                        let v = self.vars_of(sc, Ty::Str);
                        if v.is_empty() {
                            Expr::Lit(Lit::Str(self.word()))
                        } else {
                            Expr::Var(v[self.t.pick(v.len())].clone())
                        }
                    }
                };
                Stmt::Assign(name, e)
            }
            Ty::Float => Stmt::Assign(name, self.int_expr(sc, 1)),
            Ty::Divert => {
                let targets = self.dvars.iter().find(|d| d.0 == name).map(|d| d.2.clone()).unwrap_or_default();
                if targets.is_empty() {
                    return Stmt::Line(self.text_line(sc, false));
                }
                Stmt::Assign(name, Expr::DivertTarget(targets[self.t.pick(targets.len())].clone()))
            }
            Ty::List => {
                if self.t.chance(1, 2) {
                    let op = if self.t.chance(1, 2) { "+=" } else { "-=" };
                    Stmt::AssignOp(name, op, self.list_expr(sc, 1))
                } else {
                    Stmt::Assign(name, self.list_expr(sc, 2))
                }
            }
        }
    }

    /// a function (ink or external) that can be called from this scope
    fn callable(&mut self, sc: &Scope, want: Option<Ty>) -> Option<(String, Vec<Expr>)> {
        let from = match sc.func {
            Some(i) => i + 1,
            None => 0,
        };
        let int_vars = self.vars_of(sc, Ty::Int);
        let mut c: Vec<(String, usize, Vec<bool>)> = self
            .funcs
            .iter()
            .enumerate()
            .filter(|(j, f)| *j >= from && (want.is_none() || f.ret == want))
            .filter(|(_, f)| !f.refs.iter().any(|r| *r) || !int_vars.is_empty())
            .map(|(_, f)| (f.name.clone(), f.params.len(), f.refs.clone()))
            .collect();
        if want.is_none() || want == Some(Ty::Int) {
            for e in &self.externals {
                c.push((e.name.clone(), e.nargs, vec![false; e.nargs]));
            }
        }
        if c.is_empty() {
            return None;
        }
        let k = self.t.pick(c.len());
        let mut args = vec![];
        for i in 0..c[k].1 {
            if c[k].2.get(i) == Some(&true) {
                args.push(Expr::Var(int_vars[self.t.pick(int_vars.len())].clone()));
            } else {
                args.push(self.int_expr(sc, 1));
            }
        }
        Some((c[k].0.clone(), args))
    }

    // ---------------------------------------------------------------- text

    fn inline_simple(&mut self, sc: &Scope) -> Vec<Inline> {
        if self.p.nested_inline && !(self.p.pure_functions && sc.func.is_some()) && self.t.chance(1, 6) {
            // one more level: a conditional or a sequence made of plain pieces
            let mut v = vec![Inline::Text(self.words(1, 1))];
            v.push(Inline::Text(" ".into()));
            if self.t.chance(1, 2) {
                let c = self.bool_expr(sc, 1);
                let a = vec![Inline::Text(self.words(1, 2))];
                let b = if self.t.chance(1, 2) { vec![Inline::Text(self.words(1, 1))] } else { vec![] };
                v.push(Inline::Cond(c, a, b));
            } else {
                let kind = match self.t.pick(3) {
                    0 => SeqKind::Stopping,
                    1 => SeqKind::Cycle,
                    _ => SeqKind::Once,
                };
                let alts = (0..2 + self.t.pick(2)).map(|_| vec![Inline::Text(self.words(1, 1))]).collect();
                v.push(Inline::Seq(kind, alts));
            }
            return v;
        }
        match self.t.pick(4) {
            0 | 1 | 2 => vec![Inline::Text(self.words(1, 2))],
            _ => vec![Inline::Expr(self.printable_expr(sc))],
        }
    }

    fn printable_expr(&mut self, sc: &Scope) -> Expr {
        match self.t.pick(if self.p.lists { 6 } else { 5 }) {
            0 | 1 | 2 => self.int_expr(sc, 2),
            3 => self.bool_expr(sc, 1),
            4 => self.str_expr(sc, 1),
            _ => self.list_expr(sc, 2),
        }
    }

    pub fn text_line(&mut self, sc: &Scope, allow_divert: bool) -> TextLine {
        let mut parts = vec![Inline::Text(self.words(1, 3))];
        let n = self.t.pick(4);
        for _ in 0..n {
            parts.push(Inline::Text(" ".into()));
            match self.t.pick(8) {
                0 | 1 => parts.push(Inline::Text(self.words(1, 3))),
                2 | 3 => parts.push(Inline::Expr(self.printable_expr(sc))),
                4 => {
                    let c = self.bool_expr(sc, 1);
                    let a = self.inline_simple(sc);
                    let b = if self.t.chance(1, 2) {
                        self.inline_simple(sc)
                    } else {
                        vec![]
                    };
                    parts.push(Inline::Cond(c, a, b));
                }
                5 | 6 if !(self.p.pure_functions && sc.func.is_some()) => {
                    let kind = match self.t.pick(if self.p.shuffles { 4 } else { 3 }) {
                        0 => SeqKind::Stopping,
                        1 => SeqKind::Cycle,
                        2 => SeqKind::Once,
                        _ => SeqKind::Shuffle,
                    };
                    let na = 2 + self.t.pick(2);
                    let mut alts = vec![];
                    for _ in 0..na {
                        if self.t.chance(1, 6) {
                            alts.push(vec![]);
                        } else {
                            alts.push(self.inline_simple(sc));
                        }
                    }
                    parts.push(Inline::Seq(kind, alts));
                }
                5 | 6 => parts.push(Inline::Text(self.words(1, 2))),
                _ => {
                    // text function / value call inside text
                    if let Some((f, args)) = self.callable(sc, None) {
                        parts.push(Inline::Expr(Expr::Call(f, args)));
                    } else {
                        parts.push(Inline::Text(self.words(1, 2)));
                    }
                }
            }
        }
        if self.t.chance(1, 8) {
            parts.push(Inline::Text(" ".into()));
            parts.push(Inline::Glue);
        }
        let mut tags = vec![];
        let mut nt = if self.t.chance(1, 5) { 1 + self.t.pick(2) } else { 0 };
        if self.p.no_tags_in_functions && sc.func.is_some() {
            nt = 0;
        }
        for _ in 0..nt {
            tags.push(self.tag());
        }
        let mut divert = None;
        if allow_divert && sc.kind == KnotKind::Plain && sc.func.is_none() && self.t.chance(1, 10) {
            let f: Vec<_> = self
                .forward_targets(sc)
                .into_iter()
                .filter(|(_, np)| *np == 0)
                .collect();
            if !f.is_empty() {
                divert = Some(f[self.t.pick(f.len())].0.clone());
            }
        }
        TextLine {
            parts,
            tags,
            divert,
        }
    }

    // ---------------------------------------------------------------- expressions

    fn vars_of(&self, sc: &Scope, ty: Ty) -> Vec<String> {
        let mut v: Vec<String> = self
            .globals
            .iter()
            .filter(|g| g.ty == ty)
            .map(|g| g.name.clone())
            .collect();
        v.extend(
            sc.temps
                .iter()
                .filter(|(_, t)| *t == ty)
                .map(|(n, _)| n.clone()),
        );
        v
    }

    fn count_targets(&self) -> Vec<String> {
        let mut v = vec![];
        for k in &self.knots {
            v.push(k.name.clone());
            for s in &k.stitches {
                v.push(format!("{}.{}", k.name, s));
            }
        }
        v.extend(self.labels.iter().cloned());
        v
    }

    pub fn int_expr(&mut self, sc: &Scope, depth: usize) -> Expr {
        let leaf = depth == 0;
        let n_alt = if leaf { 4 } else { 14 };
        match self.t.pick(n_alt) {
            0 => Expr::int(self.t.range(0, 9)),
            1 => {
                let v = self.vars_of(sc, Ty::Int);
                if v.is_empty() {
                    Expr::int(self.t.range(0, 9))
                } else {
                    Expr::Var(v[self.t.pick(v.len())].clone())
                }
            }
            2 => {
                if self.p.faults && self.t.chance(1, 5) {
                    // the one int no literal can spell: i32::MIN, as (MIN + 1) - 1
                    // (its negation, its quotient and its remainder by -1 overflow)
                    Expr::Bin("-", Box::new(Expr::int(i32::MIN + 1)), Box::new(Expr::int(1)))
                } else if self.p.faults {
                    let c = [
                        i32::MAX,
                        i32::MIN + 1,
                        i32::MAX - 1,
                        65536,
                        46341,
                        -1,
                        0,
                        1 << 30,
                    ];
                    Expr::int(c[self.t.pick(c.len())])
                } else {
                    Expr::int(self.t.range(-20, 99))
                }
            }
            3 => {
                let c = self.count_targets();
                if c.is_empty() || sc.func.is_some() && self.p.pure_functions {
                    Expr::int(1)
                } else {
                    Expr::ReadCount(c[self.t.pick(c.len())].clone())
                }
            }
            4 | 5 => {
                let op = ["+", "-", "*"][self.t.pick(3)];
                Expr::Bin(
                    op,
                    Box::new(self.int_expr(sc, depth - 1)),
                    Box::new(self.int_expr(sc, depth - 1)),
                )
            }
            6 => {
                let op = ["/", "%"][self.t.pick(2)];
                let d = if self.p.faults && self.t.chance(1, 6) {
                    Expr::int(-1)
                } else if self.p.faults && self.t.chance(1, 2) {
                    self.int_expr(sc, depth - 1)
                } else {
                    Expr::int(self.t.range(1, 7))
                };
                Expr::Bin(op, Box::new(self.int_expr(sc, depth - 1)), Box::new(d))
            }
            7 => {
                if self.p.turns && !(sc.func.is_some() && self.p.pure_functions) {
                    match self.t.pick(3) {
                        0 => Expr::ChoiceCount,
                        1 => Expr::Turns,
                        _ => {
                            let k = self.knots[self.t.pick(self.knots.len())].name.clone();
                            Expr::TurnsSince(k)
                        }
                    }
                } else {
                    Expr::int(2)
                }
            }
            8 => {
                if let Some((f, args)) = self.callable(sc, Some(Ty::Int)) {
                    Expr::Call(f, args)
                } else {
                    Expr::int(3)
                }
            }
            9 => {
                if self.p.random {
                    if self.p.faults && self.t.chance(1, 3) {
                        Expr::Random(
                            Box::new(self.int_expr(sc, depth - 1)),
                            Box::new(self.int_expr(sc, depth - 1)),
                        )
                    } else {
                        let lo = self.t.range(0, 3);
                        let hi = lo + self.t.range(0, 5);
                        Expr::Random(Box::new(Expr::int(lo)), Box::new(Expr::int(hi)))
                    }
                } else {
                    Expr::int(4)
                }
            }
            10 => {
                let f = ["MIN", "MAX"][self.t.pick(2)];
                Expr::Call(
                    f.into(),
                    vec![self.int_expr(sc, depth - 1), self.int_expr(sc, depth - 1)],
                )
            }
            11 => {
                if self.p.lists {
                    let f = ["LIST_COUNT", "LIST_VALUE"][self.t.pick(2)];
                    Expr::Call(f.into(), vec![self.list_expr(sc, depth - 1)])
                } else {
                    Expr::int(5)
                }
            }
            12 => Expr::Un("-", Box::new(self.int_expr(sc, depth - 1))),
            _ => {
                if self.p.faults {
                    // mixed-type operand / void function result
                    match self.t.pick(3) {
                        0 => Expr::Bin(
                            "-",
                            Box::new(self.str_expr(sc, 0)),
                            Box::new(self.int_expr(sc, 0)),
                        ),
                        1 => {
                            if let Some((f, args)) = self.callable(sc, None) {
                                Expr::Call(f, args)
                            } else {
                                Expr::int(6)
                            }
                        }
                        _ => Expr::Bin(
                            "*",
                            Box::new(self.bool_expr(sc, 0)),
                            Box::new(self.int_expr(sc, 0)),
                        ),
                    }
                } else {
                    Expr::int(self.t.range(0, 3))
                }
            }
        }
    }

    pub fn bool_expr(&mut self, sc: &Scope, depth: usize) -> Expr {
        let leaf = depth == 0;
        match self.t.pick(if leaf { 3 } else { 9 }) {
            0 => Expr::Lit(Lit::Bool(self.t.chance(1, 2))),
            1 => {
                let v = self.vars_of(sc, Ty::Bool);
                if v.is_empty() {
                    Expr::Bin(
                        ">",
                        Box::new(self.int_expr(sc, 0)),
                        Box::new(Expr::int(self.t.range(0, 3))),
                    )
                } else {
                    Expr::Var(v[self.t.pick(v.len())].clone())
                }
            }
            2 | 3 | 4 => {
                let op = ["==", "!=", "<", ">", "<=", ">="][self.t.pick(6)];
                let d = depth.saturating_sub(1);
                Expr::Bin(
                    op,
                    Box::new(self.int_expr(sc, d)),
                    Box::new(self.int_expr(sc, d)),
                )
            }
            5 => {
                let op = ["and", "or"][self.t.pick(2)];
                Expr::Bin(
                    op,
                    Box::new(self.bool_expr(sc, depth - 1)),
                    Box::new(self.bool_expr(sc, depth - 1)),
                )
            }
            6 => Expr::Un("not", Box::new(self.bool_expr(sc, depth - 1))),
            7 => {
                if let Some((f, args)) = self.callable(sc, Some(Ty::Bool)) {
                    Expr::Call(f, args)
                } else {
                    let op = ["==", "!="][self.t.pick(2)];
                    Expr::Bin(
                        op,
                        Box::new(self.str_expr(sc, 0)),
                        Box::new(self.str_expr(sc, 0)),
                    )
                }
            }
            _ => {
                if self.p.lists {
                    let op = ["?", "!?", "==", "!=", "<", ">", "<=", ">="][self.t.pick(8)];
                    Expr::Bin(
                        op,
                        Box::new(self.list_expr(sc, depth - 1)),
                        Box::new(self.list_expr(sc, depth - 1)),
                    )
                } else {
                    Expr::Lit(Lit::Bool(true))
                }
            }
        }
    }

    pub fn str_expr(&mut self, sc: &Scope, depth: usize) -> Expr {
        match self.t.pick(if depth == 0 { 2 } else { 4 }) {
            0 => Expr::Lit(Lit::Str(self.word())),
            1 => {
                let v = self.vars_of(sc, Ty::Str);
                if v.is_empty() {
                    Expr::Lit(Lit::Str(self.word()))
                } else {
                    Expr::Var(v[self.t.pick(v.len())].clone())
                }
            }
            2 => Expr::Bin(
                "+",
                Box::new(self.str_expr(sc, depth - 1)),
                Box::new(self.str_expr(sc, depth - 1)),
            ),
            _ => Expr::Bin(
                "+",
                Box::new(self.str_expr(sc, depth - 1)),
                Box::new(self.int_expr(sc, depth - 1)),
            ),
        }
    }

    fn list_item(&mut self) -> String {
        let l = self.t.pick(self.lists.len());
        let i = self.t.pick(self.lists[l].items.len());
        format!("{}.{}", self.lists[l].name, self.lists[l].items[i].0)
    }

    fn list_lit(&mut self) -> Expr {
        if self.t.chance(1, 4) {
            // a tie set: every item (of any list) that has one chosen value
            let l = self.t.pick(self.lists.len());
            let i = self.t.pick(self.lists[l].items.len());
            let v = self.lists[l].items[i].1;
            let mut items = vec![];
            for ld in &self.lists {
                for (n, val, _) in &ld.items {
                    if *val == v {
                        items.push(format!("{}.{}", ld.name, n));
                    }
                }
            }
            if self.t.chance(1, 2) {
                items.reverse();
            }
            return Expr::ListLit(items);
        }
        let n = self.t.pick(4);
        let mut items = vec![];
        for _ in 0..n {
            let it = self.list_item();
            if !items.contains(&it) {
                items.push(it);
            }
        }
        Expr::ListLit(items)
    }

    pub fn list_expr(&mut self, sc: &Scope, depth: usize) -> Expr {
        if self.lists.is_empty() {
            return Expr::ListLit(vec![]);
        }
        match self.t.pick(if depth == 0 { 3 } else { 9 }) {
            0 => Expr::ListItem(self.list_item()),
            1 => {
                let v = self.vars_of(sc, Ty::List);
                if v.is_empty() {
                    self.list_lit()
                } else {
                    Expr::Var(v[self.t.pick(v.len())].clone())
                }
            }
            2 => self.list_lit(),
            3 | 4 => {
                let op = ["+", "-", "^"][self.t.pick(3)];
                Expr::Bin(
                    op,
                    Box::new(self.list_expr(sc, depth - 1)),
                    Box::new(self.list_expr(sc, depth - 1)),
                )
            }
            5 => {
                let f = ["LIST_ALL", "LIST_INVERT"][self.t.pick(2)];
                Expr::Call(f.into(), vec![self.list_expr(sc, depth - 1)])
            }
            6 => {
                let f = ["LIST_MIN", "LIST_MAX"][self.t.pick(2)];
                Expr::Call(f.into(), vec![self.list_expr(sc, depth - 1)])
            }
            7 => {
                if self.p.random {
                    Expr::Call("LIST_RANDOM".into(), vec![self.list_expr(sc, depth - 1)])
                } else {
                    Expr::Var(self.lists[self.t.pick(self.lists.len())].name.clone())
                }
            }
            _ => Expr::Bin(
                ["+", "-"][self.t.pick(2)],
                Box::new(self.list_expr(sc, depth - 1)),
                Box::new(Expr::int(self.t.range(1, 2))),
            ),
        }
    }
}

/// proptest strategy for tapes
pub fn tape_strategy(
    max_len: usize,
) -> impl proptest::strategy::Strategy<Value = Vec<u16>> {
    proptest::collection::vec(proptest::num::u16::ANY, 0..max_len)
}
