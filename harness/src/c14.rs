//! C14 — both story loaders build the same story from the same JSON.
use crate::common::*;
use crate::engine::*;
use crate::pgen::{Profile, Tape};
use crate::rt::*;
use bladeink::story::Story;
use serde_json::{Value as J, json};

const RULE: &str = "documents: every reference corpus story, this compiler's output for every corpus source, and \
compiled generated programs; into text, tag, choice and string-literal tokens hostile strings are injected \
(tab, quote, backslash, slash, U+0001..U+001F, U+007F, NBSP, U+2028, combining marks, BMP and non-BMP \
characters); each document is also re-serialised (a) with every non-ASCII character as \\uXXXX (surrogate \
pairs for non-BMP), (b) with long-form escapes (\\/ and \\u0022 / \\u005c forms), (c) pretty-printed with \
spaces, tabs and newlines between tokens, (d) with numbers written as 1.0 / 1e0 / 10E-1. Every document is \
loaded by the default loader (this process) and by the streaming loader (second build of the harness, \
separate process); per document a digest of (load result, audit listing of every object: path, kind and \
content as the runtime renders it, global tags, transcript of a bounded exploration incl. final variables) \
must be identical in both builds; within a build the value-preserving re-serialisations (a)-(c) must have \
the original's digest. Non-trivial = document containing a JSON escape other than \\\" \\\\ \\n, or a non-ASCII \
character, or non-canonical whitespace/number forms; distinct = document hash.";

const HOSTILE: &[&str] = &[
    "tab\there", "quote\"inside", "back\\slash", "slash/es", "ctl\u{1}\u{1f}x", "del\u{7f}", "nb\u{a0}sp", "ls\u{2028}ps\u{2029}",
    "é ü ñ", "e\u{301} combining", "日本語", "😀 emoji 🧪", "mixed \t \" \\ / \u{8} \u{c} end", "\r carriage", "{braces} [brackets] #hash",
    "trailing backslash\\", "\\u0041 literal", "a\u{0}b",
    // text that starts with the characters the story format itself uses as markers
    "^_^ caret first", "^^ two carets", "-> arrow first", "ev", "done", "^->", "#tag?", "L^ist", "void", "<> glue?",
];

fn inject(v: &mut J, t: &mut Tape, budget: &mut usize) {
    match v {
        J::String(s) => {
            if s.starts_with('^') && *budget > 0 && t.chance(1, 3) {
                *budget -= 1;
                let h = HOSTILE[t.pick(HOSTILE.len())];
                *s = format!("^{h} {}", &s[1..]);
            }
        }
        J::Array(a) => {
            for x in a.iter_mut() {
                inject(x, t, budget);
            }
        }
        J::Object(o) => {
            for (k, x) in o.iter_mut() {
                if k == "#" {
                    if let J::String(s) = x {
                        if *budget > 0 && t.chance(1, 2) {
                            *budget -= 1;
                            *s = format!("{s} {}", HOSTILE[t.pick(HOSTILE.len())]);
                        }
                    }
                } else {
                    inject(x, t, budget);
                }
            }
        }
        _ => {}
    }
}

fn escape_non_ascii(text: &str) -> String {
    let mut out = String::with_capacity(text.len());
    for c in text.chars() {
        if (c as u32) < 0x7f {
            out.push(c);
        } else {
            let mut buf = [0u16; 2];
            for u in c.encode_utf16(&mut buf) {
                out.push_str(&format!("\\u{:04x}", u));
            }
        }
    }
    out
}

fn long_form(text: &str) -> String {
    // '/' only occurs inside strings in serde_json's output
    text.replace('/', "\\/").replace("\\\"", "\\u0022").replace("\\\\", "\\u005c")
}

fn pretty(text: &str) -> String {
    // whitespace (spaces, tabs, newlines, CR) between tokens only, never inside strings
    fn w(v: &J, depth: usize, out: &mut String) {
        let ind = |out: &mut String, d: usize| {
            out.push_str("\r\n");
            for _ in 0..d {
                out.push_str(" \t");
            }
        };
        match v {
            J::Array(a) => {
                out.push('[');
                for (i, x) in a.iter().enumerate() {
                    if i > 0 {
                        out.push_str(" ,");
                    }
                    ind(out, depth + 1);
                    w(x, depth + 1, out);
                }
                if !a.is_empty() {
                    ind(out, depth);
                }
                out.push(']');
            }
            J::Object(o) => {
                out.push_str("{ ");
                for (i, (k, x)) in o.iter().enumerate() {
                    if i > 0 {
                        out.push_str("\t,");
                    }
                    ind(out, depth + 1);
                    out.push_str(&J::String(k.clone()).to_string());
                    out.push_str(" :\t ");
                    w(x, depth + 1, out);
                }
                if !o.is_empty() {
                    ind(out, depth);
                }
                out.push('}');
            }
            other => out.push_str(&other.to_string()),
        }
    }
    match serde_json::from_str::<J>(text) {
        Ok(v) => {
            let mut out = String::from(" \n");
            w(&v, 0, &mut out);
            out.push_str("\n ");
            out
        }
        Err(_) => text.to_string(),
    }
}

fn number_forms(v: &J, t: &mut Tape) -> String {
    // custom writer: integers inside content arrays occasionally written as floats-looking forms
    fn w(v: &J, t: &mut Tape, out: &mut String, in_root: bool) {
        match v {
            J::Number(n) if in_root && n.is_i64() && t.chance(1, 3) => {
                let i = n.as_i64().unwrap();
                match t.pick(3) {
                    0 => out.push_str(&format!("{i}.0")),
                    1 => out.push_str(&format!("{i}e0")),
                    _ => {
                        if i == 0 {
                            out.push_str("0E-1")
                        } else {
                            out.push_str(&format!("{i}0E-1"))
                        }
                    }
                }
            }
            J::Array(a) => {
                out.push('[');
                for (i, x) in a.iter().enumerate() {
                    if i > 0 {
                        out.push(',');
                    }
                    w(x, t, out, in_root);
                }
                out.push(']');
            }
            J::Object(o) => {
                out.push('{');
                for (i, (k, x)) in o.iter().enumerate() {
                    if i > 0 {
                        out.push(',');
                    }
                    out.push_str(&J::String(k.clone()).to_string());
                    out.push(':');
                    // flags, versions, list values and argument counts stay integers
                    let numeric_ok = in_root && !matches!(k.as_str(), "#f" | "flg" | "exArgs" | "ci" | "inkVersion");
                    w(x, t, out, numeric_ok && k != "listDefs" && k != "list");
                }
                out.push('}');
            }
            other => out.push_str(&other.to_string()),
        }
    }
    let mut out = String::new();
    // only the "root" member is touched
    if let J::Object(o) = v {
        out.push('{');
        for (i, (k, x)) in o.iter().enumerate() {
            if i > 0 {
                out.push(',');
            }
            out.push_str(&J::String(k.clone()).to_string());
            out.push(':');
            w(x, t, &mut out, k == "root");
        }
        out.push('}');
    } else {
        out = v.to_string();
    }
    out
}

/// digest of what a loader makes of a document
pub fn digest_doc(doc: &str) -> String {
    let r = guard(|| {
        Story::verif_set_construction_fuel(Some(5000));
        let s = Story::new(doc);
        Story::verif_set_construction_fuel(None);
        let story = match s {
            Ok(s) => s,
            Err(e) => {
                if std::env::var("VERIF_DEBUG").is_ok() {
                    println!("REJECTED: {e}");
                }
                return format!("rejected:{}", err_kind(&e));
            }
        };
        let mut out = String::new();
        for o in story.verif_audit() {
            // the writer emits list items in hash order: compare the rendering canonically
            let detail = if o.is_container { o.detail.clone() } else { canonical_json_text(&o.detail) };
            out.push_str(&format!("{}|{}|{}|{}\n", o.path, o.is_container, o.named_only, detail));
        }
        out.push_str(&format!("globaltags:{:?}\n", story.get_global_tags().ok()));
        drop(story);
        // bounded exploration
        let meta = std::rc::Rc::new(meta_from_json(doc));
        for variant in 0..3usize {
            if let Ok(mut h) = Host::new(doc, meta.clone(), &HostCfg { fuel: 4000, handler: true, allow_fallbacks: true, ..HostCfg::default() }) {
                for k in 0..5 {
                    h.apply(&HostOp::ContinueMax);
                    h.apply(&HostOp::ChooseMod(variant + k));
                }
                for o in &h.trace {
                    out.push_str(&o.without_msg().show());
                    out.push('\n');
                }
                out.push_str(&format!("{:?}\n", h.view().globals));
            }
        }
        if std::env::var("VERIF_DEBUG").is_ok() {
            return out;
        }
        format!("{:016x}", fnv(&out))
    });
    match r {
        Ok(d) => d,
        Err(p) => format!("panic@{}", p.site()),
    }
}

fn nontrivial_doc(doc: &str) -> bool {
    !doc.is_ascii()
        || doc.contains("\\u")
        || doc.contains("\\t")
        || doc.contains("\\/")
        || doc.contains("\\r")
        || doc.contains("\\b")
        || doc.contains("\\f")
        || doc.contains("\n")
        || doc.contains(".0")
        || doc.contains("e0")
}

/// the document family of one case: (label, text, must equal the original's digest in-build)
fn family(base: &str, tape: &[u16]) -> Vec<(String, String, bool)> {
    let mut t = Tape::new(tape);
    let mut v: J = match serde_json::from_str(base) {
        Ok(v) => v,
        Err(_) => return vec![],
    };
    let mut budget = 1 + t.pick(6);
    if let Some(root) = v.get_mut("root") {
        inject(root, &mut t, &mut budget);
    }
    let orig = v.to_string();
    vec![
        ("original".into(), orig.clone(), true),
        ("unicode-escaped".into(), escape_non_ascii(&orig), true),
        ("long-form-escapes".into(), long_form(&orig), true),
        ("pretty".into(), pretty(&orig), true),
        ("unicode-escaped+pretty".into(), pretty(&escape_non_ascii(&orig)), true),
        ("number-forms".into(), number_forms(&v, &mut t), false),
    ]
}

pub fn exec(case: &J, acc: &mut Acc) -> Result<(), Fail> {
    inflight(case);
    let base = if let Some(d) = case["base_document"].as_str() {
        d.to_string()
    } else {
        case_story(case)?.0
    };
    let tape: Vec<u16> = case["tape"]
        .as_array()
        .map(|a| a.iter().filter_map(|x| x.as_u64().map(|v| v as u16)).collect())
        .unwrap_or_default();
    let fam = family(&base, &tape);
    if fam.is_empty() {
        return Ok(());
    }
    let expected: Vec<Option<String>> = case["expected"]
        .as_array()
        .map(|a| a.iter().map(|x| x.as_str().map(|s| s.to_string())).collect())
        .unwrap_or_default();
    if std::env::var("VERIF_DEBUG").is_ok() {
        for (label, text, _) in &fam {
            println!("FORM {label}: {text}");
        }
    }
    let d0 = digest_doc(&fam[0].1);
    for (i, (label, text, same)) in fam.iter().enumerate() {
        acc.eval();
        if nontrivial_doc(text) {
            acc.nontrivial(fnv(text));
        }
        acc.class(&format!("form:{label}"));
        let d = if i == 0 { d0.clone() } else { digest_doc(text) };
        if d.starts_with("panic@") {
            return Err(Fail::violation(d.clone(), format!("loading/auditing the {label} form panicked ({d})"), case.clone()));
        }
        if *same && d != d0 && std::env::var("VERIF_DEBUG").is_ok() {
            let la: Vec<&str> = d0.lines().collect();
            let lb: Vec<&str> = d.lines().collect();
            for i in 0..la.len().max(lb.len()) {
                if la.get(i) != lb.get(i) {
                    println!("DIFF line {i}:\n  orig: {:?}\n  {label}: {:?}", la.get(i), lb.get(i));
                    break;
                }
            }
        }
        if *same && d != d0 {
            return Err(Fail::violation(
                "reserialisation-changes-story",
                format!("in this build the {label} form of the document loads as a different story than the original form (digest {d} vs {d0})"),
                case.clone(),
            ));
        }
        if let Some(Some(e)) = expected.get(i) {
            if *e != d {
                return Err(Fail::violation(
                    "loaders-disagree",
                    format!("the {label} form loads differently under the two loaders: this build {d}, other build {e}"),
                    case.clone(),
                ));
            }
        }
    }
    Ok(())
}

const DIGEST_MARK: &str = "@@C14DIGESTS@@";

pub fn run(env: &Env, rest: &[String]) -> i32 {
    // worker: digest the families of a case file
    if env.child {
        if let Some(pos) = rest.iter().position(|a| a == "--cases") {
            let text = std::fs::read_to_string(&rest[pos + 1]).unwrap_or_default();
            let cases: Vec<J> = serde_json::from_str(&text).unwrap_or_default();
            let out: std::sync::Mutex<Vec<(usize, Vec<String>)>> = std::sync::Mutex::new(vec![]);
            let idx: Vec<usize> = (0..cases.len()).collect();
            let _ = run_list(env, &idx, |i, _| {
                let c = &cases[*i];
                let base = c["base_document"].as_str().map(|s| s.to_string()).or_else(|| case_story(c).ok().map(|x| x.0)).unwrap_or_default();
                let tape: Vec<u16> = c["tape"].as_array().map(|a| a.iter().filter_map(|x| x.as_u64().map(|v| v as u16)).collect()).unwrap_or_default();
                let ds: Vec<String> = family(&base, &tape).iter().map(|(_, text, _)| digest_doc(text)).collect();
                out.lock().unwrap().push((*i, ds));
                Ok(())
            });
            let mut v = out.into_inner().unwrap();
            v.sort_by_key(|x| x.0);
            println!("{DIGEST_MARK}{}", json!(v.into_iter().map(|x| x.1).collect::<Vec<_>>()));
            return 0;
        }
    }
    let mut rep = Report::new("exploration", RULE);
    rep.assumptions = vec![
        "the audit listing comes from the content-audit hook (paths and the runtime's own JSON rendering of every object)".into(),
        "number forms that turn an integer into a float (1.0, 1e0) legitimately change the story; they are compared across loaders only".into(),
        "top-level key order (inkVersion, root, listDefs) is kept: the only order either producer emits and the streaming loader documents".into(),
    ];
    if let Some(p) = &env.replay {
        return match load_replay_case(p) {
            Ok((_, case)) => {
                let mut acc = Acc::default();
                if let Err(f) = exec(&case, &mut acc) {
                    rep.fails.push(f);
                }
                rep.acc.merge(acc);
                finish(env, rep)
            }
            Err(e) => {
                println!("cannot load replay: {e}");
                2
            }
        };
    }
    replay_saved(env, &mut rep, &exec);
    // base documents
    let mut bases: Vec<String> = corpus_jsons()
        .iter()
        .filter_map(|p| std::fs::read_to_string(p).ok())
        .map(|s| strip_bom(&s).to_string())
        .filter(|s| s.len() < 80_000)
        .collect();
    for p in corpus_sources() {
        if let Ok(j) = compile_file(&p) {
            if j.len() < 80_000 {
                bases.push(j);
            }
        }
    }
    let nb_corpus = bases.len();
    rep.acc.classn("corpus_base_documents", nb_corpus as u64);
    let prof = Profile::rich();
    let cases: std::sync::Mutex<Vec<J>> = std::sync::Mutex::new(vec![]);
    let keep = env.cases(500, 6000);
    // corpus bases: each with one generated injection tape (+ the untouched document)
    let mut list: Vec<J> = vec![];
    for (i, b) in bases.iter().enumerate() {
        list.push(json!({"base_document": b, "tape": []}));
        list.push(json!({"base_document": b, "tape": crate::dev::dev_tape(env.seed * 77 + i as u64, 60)}));
    }
    let r = run_list(env, &list, |c, acc| exec(c, acc));
    rep.absorb(r);
    // generated programs
    let n = env.cases(1500, 40000);
    let r = run_cases(
        env,
        1,
        n,
        || case_strategy(1500, 60),
        |gc: &GenCase, acc: &mut Acc| {
            let Some(b) = build_or_discard(&gc.prog, &prof, acc) else {
                return Ok(());
            };
            let case = json!({"base_document": b.json, "tape": gc.hist});
            acc.sample(|| json!({"source": b.src, "tape": gc.hist}));
            let r = exec(&case, acc);
            if r.is_ok() && !acc.frozen {
                let mut c = cases.lock().unwrap();
                if c.len() < keep {
                    c.push(case);
                }
            }
            r
        },
    );
    rep.absorb(r);
    // cross-loader leg
    let mut all = list;
    let mut gen_cases = cases.into_inner().unwrap();
    gen_cases.sort_by_key(|c| fnv(&c.to_string()));
    all.extend(gen_cases);
    if rep.fails.is_empty() && !all.is_empty() {
        let dir = env.verif.join(".build").join("tmp");
        let _ = std::fs::create_dir_all(&dir);
        let file = dir.join(format!("c14-cases-{}.json", std::process::id()));
        let _ = std::fs::write(&file, serde_json::to_string(&all).unwrap());
        let bin = env.verif.join(".build/dbg-stream/debug/inkcheck");
        let out = std::process::Command::new(&bin)
            .arg("C14")
            .arg("--child")
            .arg("--cases")
            .arg(&file)
            .env("VERIF_DIR", &env.verif)
            .output();
        let _ = std::fs::remove_file(&file);
        match out {
            Err(e) => rep.health_errors.push(format!("cannot run the streaming-loader build: {e}")),
            Ok(o) => {
                let stdout = String::from_utf8_lossy(&o.stdout);
                let line = stdout.lines().find_map(|l| l.strip_prefix(DIGEST_MARK).map(|s| s.to_string()));
                match line.and_then(|l| serde_json::from_str::<J>(&l).ok()) {
                    None => rep.health_errors.push(format!("streaming-loader build gave no digests (status {:?})", o.status)),
                    Some(j) => {
                        let theirs: Vec<Vec<String>> = j
                            .as_array()
                            .map(|a| a.iter().map(|x| x.as_array().map(|y| y.iter().map(|z| z.as_str().unwrap_or("").to_string()).collect()).unwrap_or_default()).collect())
                            .unwrap_or_default();
                        rep.acc.classn("documents_compared_across_loaders", theirs.iter().map(|f| f.len() as u64).sum());
                        let idx: Vec<usize> = (0..all.len()).collect();
                        let r = run_list(env, &idx, |i, acc| {
                            let mut c = all[*i].clone();
                            c["expected"] = json!(theirs.get(*i).cloned().unwrap_or_default());
                            exec(&c, acc)
                        });
                        // evaluations of this leg are re-digests; count them as cross-build comparisons only
                        rep.fails.extend(r.fails);
                    }
                }
            }
        }
    }
    finish(env, rep)
}
