//! C03 — play is a deterministic function of program, seed and host calls.
use crate::common::*;
use crate::engine::*;
use crate::lockstep::*;
use crate::pgen::Profile;
use crate::rt::*;
use serde_json::{Value as J, json};

const RULE: &str = "generated programs weighted towards several LISTs whose items share values across lists, \
multi-origin list values, LIST_MIN/MAX/RANDOM/ALL/INVERT, list printing, shuffles, RANDOM, many globals, \
externals, plus the reference corpus stories, each under a generated history (continues, choices, save/load, \
flows, path jumps, set_variable, evaluate_function). Every scenario is (1) compiled three times (bytes must be \
identical) and played twice in one process on fresh stories (every hash map gets fresh random keys), (2) \
replayed in N separate worker processes (quick 3, thorough 8), (3) replayed by the release build; a digest of \
(compiled bytes, transcript incl. kinds of errors but not their text, final view, canonical save) must be \
identical everywhere. Non-trivial = scenario whose program uses list operations, LIST_RANDOM, shuffles or \
RANDOM, or whose final save has >= 3 non-default globals or >= 2 flows; distinct = scenario hash.";

fn profile() -> Profile {
    Profile {
        lists: true,
        random: true,
        shuffles: true,
        externals: true,
        ..Profile::default()
    }
}

/// digest of one scenario, or Err(description) when two in-process runs disagree
fn digest(case: &J) -> Result<Result<(String, bool), String>, Fail> {
    let mut compiled = vec![];
    let (json_text, meta) = if let Some(src) = case["source"].as_str() {
        for _ in 0..3 {
            match compile_src(src) {
                Ok((j, _)) => compiled.push(j),
                Err(e) => return Err(Fail::harness(format!("scenario source does not compile: {e}"))),
            }
        }
        if compiled[0] != compiled[1] || compiled[0] != compiled[2] {
            return Ok(Err("compiling the same source twice gave different output".into()));
        }
        let m = std::rc::Rc::new(meta_from_json(&compiled[0]));
        (compiled[0].clone(), m)
    } else {
        case_story(case)?
    };
    let cfg = cfg_from_json(&case["cfg"]);
    let ops = ops_from_json(&case["ops"]);
    let mut runs = vec![];
    // (five runs: a dependence on hash-map iteration order shows in some repetitions only, and
    // a case that failed must fail again when the shrinker and the final re-execution replay it)
    for _ in 0..5 {
        match run_marked(&json_text, &meta, &cfg, &ops, false) {
            Err(p) => return Err(panic_fail(&p, "scenario", case)),
            Ok(Err(e)) => return Ok(Ok((format!("new-failed:{e}"), false))),
            Ok(Ok(m)) => runs.push(m),
        }
    }
    if runs.iter().any(|r| r.fuel_out) {
        return Ok(Ok(("fuel".into(), false)));
    }
    let render = |m: &Marked| -> String {
        let mut s = String::new();
        for o in no_msgs(&m.trace) {
            s.push_str(&o.show());
            s.push('\n');
        }
        s.push_str(&format!("{:?}\n", m.final_view.without_msgs()));
        s.push_str(&m.final_save.as_deref().map(canonical_json_text).unwrap_or_default());
        s
    };
    let a = render(&runs[0]);
    let b = runs[1..].iter().map(&render).find(|b| *b != a).unwrap_or_else(|| a.clone());
    if a != b {
        let la: Vec<&str> = a.lines().collect();
        let lb: Vec<&str> = b.lines().collect();
        let i = (0..la.len().max(lb.len()))
            .find(|i| la.get(*i) != lb.get(*i))
            .unwrap_or(0);
        return Ok(Err(format!(
            "two runs in one process differ: {:?} vs {:?}",
            la.get(i).map(|s| s.chars().take(300).collect::<String>()),
            lb.get(i).map(|s| s.chars().take(300).collect::<String>())
        )));
    }
    let facts = runs[0].final_save.as_deref().map(save_facts).unwrap_or_default();
    let nondefault_globals = runs[0]
        .final_save
        .as_deref()
        .and_then(|s| serde_json::from_str::<J>(s).ok())
        .and_then(|j| j["variablesState"].as_object().map(|o| o.len()))
        .unwrap_or(0);
    let nt = facts.flows >= 2 || nondefault_globals >= 3;
    Ok(Ok((format!("{:016x}", fnv(&format!("{}\n{}", json_text, a))), nt)))
}

pub fn exec(case: &J, acc: &mut Acc) -> Result<(), Fail> {
    inflight(case);
    acc.eval();
    match digest(case)? {
        Ok((_, nt)) => {
            let src = case["source"].as_str().unwrap_or("");
            let uses = ["LIST_", "{~", "RANDOM", " ? ", " ^ "].iter().any(|k| src.contains(k));
            if nt || uses {
                acc.nontrivial(fnv(&case.to_string()));
            }
            if let Some(expected) = case["expected_digest"].as_str() {
                let (d, _) = digest(case)?.unwrap_or_default();
                if d != expected {
                    return Err(Fail::violation(
                        "differs-across-processes",
                        format!("digest {d} differs from the digest {expected} another process/build computed for the same scenario"),
                        case.clone(),
                    ));
                }
            }
            Ok(())
        }
        Err(m) => Err(Fail::violation("nondeterministic-in-process", m, case.clone())),
    }
}

const DIGEST_MARK: &str = "@@DIGESTS@@";

fn child_digests(env: &Env, variant: &str, file: &std::path::Path) -> Result<Vec<String>, String> {
    let bin = env.verif.join(".build").join(variant).join("inkcheck");
    if !bin.exists() {
        return Err(format!("build variant missing: {}", bin.display()));
    }
    let out = std::process::Command::new(&bin)
        .arg("C03")
        .arg("--child")
        .arg("--scenarios")
        .arg(file)
        .env("VERIF_DIR", &env.verif)
        .output()
        .map_err(|e| e.to_string())?;
    let stdout = String::from_utf8_lossy(&out.stdout);
    for line in stdout.lines() {
        if let Some(rest) = line.strip_prefix(DIGEST_MARK) {
            let j: J = serde_json::from_str(rest).map_err(|e| e.to_string())?;
            return Ok(j
                .as_array()
                .map(|a| a.iter().map(|x| x.as_str().unwrap_or("").to_string()).collect())
                .unwrap_or_default());
        }
    }
    Err(format!("worker {variant} gave no digests (status {:?})", out.status))
}

pub fn run(env: &Env, rest: &[String]) -> i32 {
    // worker mode: digest a scenario file
    if env.child {
        if let Some(pos) = rest.iter().position(|a| a == "--scenarios") {
            let file = &rest[pos + 1];
            let text = std::fs::read_to_string(file).unwrap_or_default();
            let scenarios: Vec<J> = serde_json::from_str(&text).unwrap_or_default();
            let r = run_list(env, &(0..scenarios.len()).collect::<Vec<_>>(), |_, _| Ok(()));
            let _ = r;
            let out: std::sync::Mutex<Vec<(usize, String)>> = std::sync::Mutex::new(vec![]);
            let idx: Vec<usize> = (0..scenarios.len()).collect();
            let _ = run_list(env, &idx, |i, _acc| {
                let d = match digest(&scenarios[*i]) {
                    Ok(Ok((d, _))) => d,
                    Ok(Err(m)) => format!("nondet:{m}"),
                    Err(f) => format!("fail:{}", f.key),
                };
                out.lock().unwrap().push((*i, d));
                Ok(())
            });
            let mut v = out.into_inner().unwrap();
            v.sort();
            let ds: Vec<String> = v.into_iter().map(|(_, d)| d).collect();
            println!("{DIGEST_MARK}{}", json!(ds));
            return 0;
        }
    }
    let mut rep = Report::new("exploration", RULE);
    rep.assumptions = vec![
        "separate processes differ in the std hasher's random keys, which is what varies hash-map iteration order; N processes sample N such orders".into(),
        "error/warning message text is not part of the digest (C03 speaks of text, tags, choices, values, counts and saves); presence and kind are".into(),
        "the order in which one continue notifies different observed variables is not part of the digest (notification runs are sorted)".into(),
    ];
    if let Some(p) = &env.replay {
        return match load_replay_case(p) {
            Ok((_, case)) => {
                let mut acc = Acc::default();
                // a replayed scenario is digested in this process and in two workers
                if let Err(f) = exec(&case, &mut acc) {
                    rep.fails.push(f);
                }
                rep.acc.merge(acc);
                finish(env, rep)
            }
            Err(e) => {
                println!("cannot load replay: {e}");
                2
            }
        };
    }
    replay_saved(env, &mut rep, &exec);

    let prof = profile();
    let hp = HistProfile::everything();
    let scenarios: std::sync::Mutex<Vec<J>> = std::sync::Mutex::new(vec![]);
    let keep = env.cases(400, 4000);
    let n = env.cases(5000, 120000);
    let r = run_cases(
        env,
        1,
        n,
        || case_strategy(1500, 60),
        |gc: &GenCase, acc: &mut Acc| {
            let Some(b) = build_or_discard(&gc.prog, &prof, acc) else {
                return Ok(());
            };
            let ops = decode_history(&gc.hist, &b.meta, &hp);
            let cfg = HostCfg {
                handler: gc.hist.first().map(|v| v & 1 == 1).unwrap_or(false),
                allow_fallbacks: true,
                ..HostCfg::default()
            };
            let case = json!({"source": b.src, "cfg": cfg_to_json(&cfg), "ops": ops_to_json(&ops)});
            acc.sample(|| case.clone());
            let r = exec(&case, acc);
            if r.is_ok() && !acc.frozen {
                let mut s = scenarios.lock().unwrap();
                if s.len() < keep {
                    s.push(case);
                }
            }
            r
        },
    );
    rep.absorb(r);
    // corpus scenarios
    let docs = corpus_jsons();
    if !docs.is_empty() {
        let nd = docs.len();
        let n2 = env.cases(1500, 30000);
        let keep2 = keep + env.cases(200, 2000);
        let r = run_cases(
            env,
            2,
            n2,
            || (0..nd, proptest::collection::vec(proptest::num::u16::ANY, 0..60)),
            |(di, hist): &(usize, Vec<u16>), acc: &mut Acc| {
                let path = docs[*di].display().to_string();
                let Ok(doc) = std::fs::read_to_string(&docs[*di]) else {
                    return Ok(());
                };
                let meta = meta_from_json(strip_bom(&doc));
                let ops = decode_history(hist, &meta, &hp);
                let cfg = HostCfg {
                    allow_fallbacks: true,
                    ..HostCfg::default()
                };
                let case = json!({"corpus_file": path, "cfg": cfg_to_json(&cfg), "ops": ops_to_json(&ops)});
                let r = exec(&case, acc);
                if r.is_ok() && !acc.frozen {
                    let mut s = scenarios.lock().unwrap();
                    if s.len() < keep2 {
                        s.push(case);
                    }
                }
                r
            },
        );
        rep.absorb(r);
    }

    // cross-process / cross-profile legs over the retained scenarios
    let mut scenarios = scenarios.into_inner().unwrap();
    // deterministic order regardless of thread scheduling
    scenarios.sort_by_key(|c| fnv(&c.to_string()));
    if !scenarios.is_empty() && rep.fails.is_empty() {
        let dir = env.verif.join(".build").join("tmp");
        let _ = std::fs::create_dir_all(&dir);
        let file = dir.join(format!("c03-scenarios-{}.json", std::process::id()));
        let _ = std::fs::write(&file, serde_json::to_string(&scenarios).unwrap());
        let mine: Vec<String> = scenarios
            .iter()
            .map(|c| match digest(c) {
                Ok(Ok((d, _))) => d,
                Ok(Err(m)) => format!("nondet:{m}"),
                Err(f) => format!("fail:{}", f.key),
            })
            .collect();
        let workers = env.tier.pick(3, 8);
        let mut variants: Vec<String> = (0..workers).map(|_| "dbg/debug".to_string()).collect();
        variants.push("rel/release".to_string());
        variants.push("rel/release".to_string());
        for v in &variants {
            match child_digests(env, v, &file) {
                Ok(ds) => {
                    rep.acc.classn(&format!("worker_process_scenarios:{v}"), ds.len() as u64);
                    rep.acc.evals(ds.len() as u64);
                    if ds.len() != mine.len() {
                        rep.health_errors.push(format!("worker {v} returned {} digests for {} scenarios", ds.len(), mine.len()));
                        continue;
                    }
                    for (i, d) in ds.iter().enumerate() {
                        if *d != mine[i] {
                            let mut case = scenarios[i].clone();
                            case["expected_digest"] = json!(d);
                            rep.fails.push(Fail::violation(
                                "differs-across-processes",
                                format!("scenario digest differs between this process ({}) and a {v} worker process ({d})", mine[i]),
                                case,
                            ));
                            break;
                        }
                    }
                }
                Err(e) => rep.health_errors.push(e),
            }
        }
        let _ = std::fs::remove_file(&file);
    }
    finish(env, rep)
}
