//! C10 — flows are independent except for global variables and counts.
use crate::ast::*;
use crate::common::*;
use crate::engine::*;
use crate::lockstep::*;
use crate::pgen::{Profile, Tape, gen_program};
use crate::rt::*;
use serde_json::{Value as J, json};

const RULE: &str = "programs made of 2 (exhaustive) or 3 (sampled) mutually disjoint flow scripts: each script has \
its own generated knots, stitches, functions, globals and labels (name-prefixed), no TURNS/TURNS_SINCE/RANDOM/\
shuffle (legitimately shared state), entered with choose_path_string in its own named flow and driven by a \
generated host script of continue / choose / continue_maximally operations (<= 4 per flow quick, <= 6 thorough). \
For two flows ALL interleavings of the two scripts are enumerated (up to 70), for three flows interleavings are \
sampled; variants add at interleaving points: switching away and straight back, switch_to_default_flow and back, \
save -> fresh story -> load_state (once, or before every step), remove_flow of a flow that has finished its script, and a variant in which the first script plays in the default flow while finished named flows are removed as the current flow (the story falls back to the default flow without a switch call). Oracle: each flow's \
observations (lines, tags, choices, end) equal those of the same script run alone in a single-flow story, and \
its globals end with the solo values; on coming back to a flow the host sees the text, tags and choices it saw when it left; a removed flow is absent from the next save; (rewind variant) a checkpoint saved at a generated step and loaded at the end into the very story that went on playing gives the same save and the same view of every flow as a fresh story that loads it. Cases whose solo run reports an error are discarded (an unhandled error \
halts the whole story by design). Non-trivial = interleaving with >= 2 switches in which a flow is parked at a \
choice point or mid-paragraph; distinct = hash(program, scripts, interleaving, variant).";

const FLOWS: [&str; 3] = ["fa", "fb", "fc"];
const PREFIX: [&str; 3] = ["a_", "b_", "c_"];

fn sub_profile(i: usize) -> Profile {
    Profile {
        max_knots: 3,
        turns: false,
        random: false,
        shuffles: false,
        lists: false,
        externals: false,
        done_and_fall_off: false,
        idioms: false,
        prefix: PREFIX[i].to_string(),
        ..Profile::default()
    }
}

fn merged_source(tapes: &[Vec<u16>]) -> (String, Vec<String>) {
    let mut merged = Program::default();
    let mut entries = vec![];
    for (i, t) in tapes.iter().enumerate() {
        let p = gen_program(t, &sub_profile(i));
        entries.push(p.knots[0].name.clone());
        merged.globals.extend(p.globals);
        merged.knots.extend(p.knots);
        merged.functions.extend(p.functions);
    }
    merged.root = Block {
        stmts: vec![Stmt::Done],
        group: None,
    };
    (merged.to_ink(), entries)
}

fn gen_script(t: &mut Tape, max: usize) -> Vec<HostOp> {
    let n = 1 + t.pick(max);
    let mut v = vec![];
    for _ in 0..n {
        v.push(match t.pick(5) {
            0 | 1 => HostOp::Continue,
            2 | 3 => HostOp::ChooseMod(t.pick(4)),
            _ => HostOp::ContinueMax,
        });
    }
    v
}

fn interleavings(a: usize, b: usize) -> Vec<Vec<usize>> {
    fn go(a: usize, b: usize, cur: &mut Vec<usize>, out: &mut Vec<Vec<usize>>) {
        if a == 0 && b == 0 {
            out.push(cur.clone());
            return;
        }
        if a > 0 {
            cur.push(0);
            go(a - 1, b, cur, out);
            cur.pop();
        }
        if b > 0 {
            cur.push(1);
            go(a, b - 1, cur, out);
            cur.pop();
        }
    }
    let mut out = vec![];
    go(a, b, &mut vec![], &mut out);
    out
}

fn story_obs(t: &[Obs]) -> Vec<Obs> {
    t.iter()
        .filter(|o| matches!(o, Obs::Line { .. } | Obs::Choices(_) | Obs::End | Obs::Err { .. } | Obs::Skip(_)))
        .cloned()
        .collect()
}

struct Solo {
    obs: Vec<Vec<Obs>>,
    globals: std::collections::BTreeMap<String, String>,
    parked_points: Vec<bool>,
}

/// variant: 0 plain, 1 bounce (switch away and back before every op), 2 default-flow bounce,
/// 3 save -> fresh story -> load at step `at`, 4 remove finished flows as soon as possible,
/// 5 save -> fresh story -> load before EVERY step, 6 flow 0 plays in the default flow and finished
/// named flows are removed while current, 7 checkpoint at step `at`, play on, then load the
/// checkpoint into the same story (rewind) and compare with a fresh story that loads it
pub fn exec(case: &J, acc: &mut Acc) -> Result<(), Fail> {
    inflight(case);
    let (json_text, meta) = case_story(case)?;
    let cfg = HostCfg {
        handler: false,
        ..HostCfg::default()
    };
    let nflows = case["scripts"].as_array().map(|a| a.len()).unwrap_or(0);
    let scripts: Vec<Vec<HostOp>> = (0..nflows).map(|i| ops_from_json(&case["scripts"][i])).collect();
    let entries: Vec<String> = (0..nflows)
        .map(|i| case["entries"][i].as_str().unwrap_or("").to_string())
        .collect();
    let order: Vec<usize> = case["interleaving"]
        .as_array()
        .map(|a| a.iter().filter_map(|x| x.as_u64().map(|v| v as usize)).collect())
        .unwrap_or_default();
    let variant = case["variant"].as_u64().unwrap_or(0);
    let at = case["at"].as_u64().unwrap_or(0) as usize;
    acc.eval();

    // solo runs
    let mut solo = Solo {
        obs: vec![],
        globals: Default::default(),
        parked_points: vec![],
    };
    for f in 0..nflows {
        let r = guard(|| {
            let mut h = Host::new(&json_text, meta.clone(), &cfg).map_err(|e| e.to_string())?;
            h.apply(&HostOp::SwitchFlow(FLOWS[f].to_string()));
            h.apply(&HostOp::ChoosePath { path: entries[f].clone(), reset: false, args: vec![] });
            h.trace.clear();
            let mut per_op = vec![];
            let mut parked = false;
            for op in &scripts[f] {
                let m = h.trace.len();
                h.apply(op);
                per_op.push(story_obs(&h.trace[m..]));
                let v = h.view();
                if !v.choices.is_empty() || (v.can_continue && v.text.as_deref().map(|t| !t.is_empty()).unwrap_or(false)) {
                    parked = true;
                }
            }
            Ok::<_, String>((per_op, h.view().globals, h.fuel_exhausted(), parked))
        });
        match r {
            Err(p) => return Err(panic_fail(&p, "solo run", case)),
            Ok(Err(_)) => {
                acc.discard("story_new_failed");
                return Ok(());
            }
            Ok(Ok((per_op, globals, fuel, parked))) => {
                if fuel {
                    acc.discard("fuel");
                    return Ok(());
                }
                if per_op.iter().flatten().any(|o| matches!(o, Obs::Err { .. })) {
                    acc.discard("solo_run_has_error");
                    return Ok(());
                }
                for (k, v) in globals {
                    if k.starts_with(PREFIX[f]) {
                        solo.globals.insert(k, v);
                    }
                }
                solo.obs.push(per_op.into_iter().flatten().collect());
                solo.parked_points.push(parked);
            }
        }
    }

    // interleaved run
    let r = guard(|| {
        let mut h = Host::new(&json_text, meta.clone(), &cfg).map_err(|e| e.to_string())?;
        let mut got: Vec<Vec<Obs>> = vec![vec![]; nflows];
        let mut next = vec![0usize; nflows];
        let mut started = vec![false; nflows];
        let mut removed = vec![false; nflows];
        let mut current: Option<usize> = None;
        let mut switches = 0;
        // what each flow showed when the host last left it (text, tags, choices)
        type Shown = (Option<String>, Option<Vec<String>>, Vec<(String, Vec<String>)>);
        let mut shown: Vec<Option<Shown>> = vec![None; nflows];
        let poll = |h: &mut Host| -> Shown {
            (
                h.story.get_current_text().ok(),
                h.story.get_current_tags().ok(),
                h.story.get_current_choices().iter().map(|c| (c.text.clone(), c.tags.clone())).collect(),
            )
        };
        let mut back_diff: Option<String> = None;
        let mut removed_still_saved: Option<String> = None;
        let mut checkpoint: Option<String> = None;
        for (step, &f) in order.iter().enumerate() {
            if variant == 7 && step == at {
                checkpoint = h.story.save_state().ok();
            }
            if (variant == 3 && step == at) || variant == 5 || variant == 8 {
                // save -> fresh story -> load
                let s = h.story.save_state().map_err(|e| e.to_string())?;
                let mut h2 = Host::new(&json_text, meta.clone(), &cfg).map_err(|e| e.to_string())?;
                h2.story.load_state(&s).map_err(|e| format!("load_state: {e}"))?;
                h = h2;
            }
            if variant == 4 {
                for g in 0..nflows {
                    if g != f && started[g] && !removed[g] && next[g] >= scripts[g].len() && current != Some(g) {
                        h.apply(&HostOp::RemoveFlow(FLOWS[g].to_string()));
                        removed[g] = true;
                    }
                }
            }
            if variant == 6 || variant == 8 {
                // flow 0 plays in the DEFAULT flow (variant 8: with save -> fresh story -> load
                // before every step, so saves are taken while the default flow is the current
                // one and named flows are parked); a named flow that has finished its script is
                // removed while it is the current one, which returns the story to the default
                // flow without any switch call
                if current != Some(f) {
                    if f == 0 {
                        if current.is_some() {
                            h.apply(&HostOp::SwitchDefault);
                        }
                    } else {
                        h.apply(&HostOp::SwitchFlow(FLOWS[f].to_string()));
                    }
                    switches += 1;
                    current = Some(f);
                }
            } else if current != Some(f) || variant == 1 || variant == 2 {
                if variant == 1 && current == Some(f) {
                    let other = (f + 1) % nflows;
                    if !removed[other] {
                        h.apply(&HostOp::SwitchFlow(FLOWS[other].to_string()));
                    }
                }
                if variant == 2 {
                    h.apply(&HostOp::SwitchDefault);
                }
                h.apply(&HostOp::SwitchFlow(FLOWS[f].to_string()));
                if current != Some(f) {
                    switches += 1;
                }
                current = Some(f);
            }
            // switching away and back is a no-op: the flow shows what it showed when it was left
            if started[f] && variant != 3 && variant != 5 && variant != 8 {
                if let Some(before) = &shown[f] {
                    let now = poll(&mut h);
                    if *before != now && back_diff.is_none() {
                        back_diff = Some(format!("flow {} showed {:?} when the host left it and shows {:?} on coming back", FLOWS[f], before, now));
                    }
                }
            }
            if !started[f] {
                h.apply(&HostOp::ChoosePath { path: entries[f].clone(), reset: false, args: vec![] });
                started[f] = true;
            }
            let m = h.trace.len();
            h.apply(&scripts[f][next[f]]);
            next[f] += 1;
            got[f].extend(story_obs(&h.trace[m..]));
            shown[f] = Some(poll(&mut h));
            if (variant == 6 || variant == 8) && f != 0 && next[f] >= scripts[f].len() && !removed[f] {
                h.apply(&HostOp::RemoveFlow(FLOWS[f].to_string()));
                removed[f] = true;
                current = Some(0);
                // a removed flow is gone: the next save does not carry it
                if let Ok(sv) = h.story.save_state() {
                    if let Ok(j) = serde_json::from_str::<J>(&sv) {
                        if j["flows"].get(FLOWS[f]).is_some() && removed_still_saved.is_none() {
                            removed_still_saved = Some(FLOWS[f].to_string());
                        }
                    }
                }
            }
        }
        let end_globals = h.view().globals;
        // variant 7: rewind. Loading the checkpoint into the story that went on playing (and
        // opened further flows meanwhile) must give exactly what a fresh story gives that loads
        // the same checkpoint: the same save, and every flow name shows the same thing.
        let mut rewind_diff: Option<String> = None;
        if let Some(cp) = &checkpoint {
            let mut fresh = Host::new(&json_text, meta.clone(), &cfg).map_err(|e| e.to_string())?;
            fresh.story.load_state(cp).map_err(|e| format!("load_state: {e}"))?;
            h.story.load_state(cp).map_err(|e| format!("load_state: {e}"))?;
            let (a, b) = (h.canonical_save(), fresh.canonical_save());
            match (a, b) {
                (Ok(a), Ok(b)) if a != b => {
                    rewind_diff = Some(format!("the save after the rewind differs from the save of a fresh story that loaded the checkpoint: {}", crate::c02::json_diff(&b, &a)));
                }
                _ => {}
            }
            if rewind_diff.is_none() {
                for name in FLOWS.iter().take(nflows) {
                    h.apply(&HostOp::SwitchFlow(name.to_string()));
                    fresh.apply(&HostOp::SwitchFlow(name.to_string()));
                    let (x, y) = (poll(&mut h), poll(&mut fresh));
                    let (cx, cy) = (h.story.can_continue(), fresh.story.can_continue());
                    if x != y || cx != cy {
                        rewind_diff = Some(format!("after the rewind flow {name} shows {x:?} (can continue: {cx}); in a fresh story that loaded the checkpoint it shows {y:?} (can continue: {cy})"));
                        break;
                    }
                }
            }
        }
        Ok::<_, String>((got, end_globals, h.fuel_exhausted(), switches, back_diff, removed_still_saved, rewind_diff))
    });
    let (got, globals, fuel, switches, back_diff, removed_still_saved, rewind_diff) = match r {
        Err(p) => return Err(panic_fail(&p, "interleaved run", case)),
        Ok(Err(e)) => {
            if e.starts_with("load_state") {
                return Err(Fail::violation("load-rejected", format!("interleaved run: {e}"), case.clone()));
            }
            return Ok(());
        }
        Ok(Ok(x)) => x,
    };
    if fuel {
        acc.discard("fuel");
        return Ok(());
    }
    if switches >= 2 && solo.parked_points.iter().any(|p| *p) {
        acc.nontrivial(fnv(&case.to_string()));
    }
    acc.class(&format!("variant:{variant}"));
    if let Some(d) = back_diff {
        return Err(Fail::violation("switch-back-view-differs", format!("variant {variant}: {d}"), case.clone()));
    }
    if let Some(d) = rewind_diff {
        return Err(Fail::violation("rewind-differs-from-fresh-load", format!("variant {variant}, checkpoint at step {at}: {d}"), case.clone()));
    }
    if let Some(name) = removed_still_saved {
        return Err(Fail::violation("removed-flow-still-saved", format!("variant {variant}: flow {name} was removed but the next save still carries it"), case.clone()));
    }
    for f in 0..nflows {
        if let Some((i, a, b)) = first_diff(&solo.obs[f], &got[f]) {
            return Err(Fail::violation(
                "flow-transcript-differs",
                format!(
                    "flow {} shows something different when interleaved (variant {variant}): observation {i}: alone {a} / interleaved {b}",
                    FLOWS[f]
                ),
                case.clone(),
            ));
        }
    }
    for (k, v) in &solo.globals {
        if globals.get(k) != Some(v) {
            return Err(Fail::violation(
                "flow-globals-differ",
                format!("global {k} ends as {:?} when interleaved but {v} alone", globals.get(k)),
                case.clone(),
            ));
        }
    }
    Ok(())
}

#[derive(Debug, Clone)]
pub struct FlowCase {
    tapes: Vec<Vec<u16>>,
    ctl: Vec<u16>,
}

impl Tapes for FlowCase {
    fn tapes(&self) -> Vec<Vec<u16>> {
        let mut v = self.tapes.clone();
        v.push(self.ctl.clone());
        v
    }
    fn with_tapes(&self, mut t: Vec<Vec<u16>>) -> Self {
        let ctl = t.pop().unwrap();
        FlowCase { tapes: t, ctl }
    }
}

pub fn run(env: &Env) -> i32 {
    use proptest::strategy::Strategy;
    let mut rep = Report::new("exploration", RULE);
    rep.assumptions = vec![
        "disjointness of the flow scripts is by generator construction (name prefixes; no shared-state builtins)".into(),
        "a flow's solo transcript is produced in a named flow of a story in which no other flow runs".into(),
    ];
    if let Some(p) = &env.replay {
        return match load_replay_case(p) {
            Ok((_, case)) => {
                let mut acc = Acc::default();
                if let Err(f) = exec(&case, &mut acc) {
                    rep.fails.push(f);
                }
                rep.acc.merge(acc);
                finish(env, rep)
            }
            Err(e) => {
                println!("cannot load replay: {e}");
                2
            }
        };
    }
    replay_saved(env, &mut rep, &exec);
    let max_ops = env.tier.pick(4, 6);
    for nflows in [2usize, 3] {
        let n = if nflows == 2 { env.cases(1500, 15000) } else { env.cases(500, 5000) };
        let r = run_cases(
            env,
            nflows as u64,
            n,
            || {
                (
                    proptest::collection::vec(proptest::collection::vec(proptest::num::u16::ANY, 0..700), nflows),
                    proptest::collection::vec(proptest::num::u16::ANY, 0..60),
                )
                    .prop_map(|(tapes, ctl)| FlowCase { tapes, ctl })
            },
            |fc: &FlowCase, acc: &mut Acc| {
                let (src, entries) = merged_source(&fc.tapes);
                let Ok((_json, _meta)) = compile_src(&src) else {
                    acc.discard("compile_error");
                    return Ok(());
                };
                let mut t = Tape::new(&fc.ctl);
                let scripts: Vec<Vec<HostOp>> = (0..nflows).map(|_| gen_script(&mut t, max_ops)).collect();
                let orders: Vec<Vec<usize>> = if nflows == 2 {
                    interleavings(scripts[0].len(), scripts[1].len())
                } else {
                    // sampled interleavings of three scripts
                    (0..12)
                        .map(|_| {
                            let mut left: Vec<usize> = scripts.iter().map(|s| s.len()).collect();
                            let mut o = vec![];
                            while left.iter().any(|l| *l > 0) {
                                let avail: Vec<usize> = (0..nflows).filter(|f| left[*f] > 0).collect();
                                let f = avail[t.pick(avail.len())];
                                left[f] -= 1;
                                o.push(f);
                            }
                            o
                        })
                        .collect()
                };
                let base = json!({"source": src, "entries": entries,
                    "scripts": scripts.iter().map(|s| ops_to_json(s)).collect::<Vec<_>>()});
                for (oi, order) in orders.iter().enumerate() {
                    for variant in 0..9u64 {
                        if variant != 0 && (oi + variant as usize) % 3 != 0 {
                            continue; // variants on a third of the interleavings each
                        }
                        let mut case = base.clone();
                        case["interleaving"] = json!(order);
                        case["variant"] = json!(variant);
                        case["at"] = json!(t.pick(order.len().max(1)));
                        acc.sample(|| case.clone());
                        exec(&case, acc)?;
                    }
                }
                Ok(())
            },
        );
        rep.absorb(r);
    }
    finish(env, rep)
}
