//! Shared pieces of the checks: generated case = (program tape, history tape), history
//! decoding against the compiled story's metadata, corpus access.
use crate::ast::Program;
use crate::engine::{Acc, Fail};
use crate::pgen::{Profile, Tape, gen_program};
use crate::rt::*;
use proptest::strategy::Strategy;
use serde_json::{Value as J, json};
use std::rc::Rc;

pub const FLOW_NAMES: &[&str] = &["fa", "fb"];

#[derive(Debug, Clone)]
pub struct GenCase {
    pub prog: Vec<u16>,
    pub hist: Vec<u16>,
}

impl crate::engine::Tapes for GenCase {
    fn tapes(&self) -> Vec<Vec<u16>> {
        vec![self.prog.clone(), self.hist.clone()]
    }
    fn with_tapes(&self, mut t: Vec<Vec<u16>>) -> Self {
        let hist = t.pop().unwrap();
        let prog = t.pop().unwrap();
        GenCase { prog, hist }
    }
}

pub fn case_strategy(prog_len: usize, hist_len: usize) -> impl Strategy<Value = GenCase> {
    (
        proptest::collection::vec(proptest::num::u16::ANY, 0..prog_len),
        proptest::collection::vec(proptest::num::u16::ANY, 0..hist_len),
    )
        .prop_map(|(prog, hist)| GenCase { prog, hist })
}

/// Which host operations a history may contain (weights; 0 = never).
#[derive(Debug, Clone)]
pub struct HistProfile {
    pub cont: u32,
    pub cont_max: u32,
    pub choose: u32,
    pub save: u32,
    pub load: u32,
    pub reset: u32,
    pub flows: u32,
    pub choose_path: u32,
    pub set_var: u32,
    pub eval: u32,
    pub observe: u32,
    /// valid unbind / re-bind of the story's externals
    pub binds: u32,
    /// choices also by raw index (possibly out of range, possibly while the story can continue)
    pub raw_choose: bool,
    /// evaluate_function also on knots that are not functions (robustness checks only)
    pub eval_knots: bool,
    pub max_ops: usize,
}

impl Default for HistProfile {
    fn default() -> Self {
        HistProfile {
            cont: 30,
            cont_max: 12,
            choose: 30,
            save: 0,
            load: 0,
            reset: 0,
            flows: 0,
            choose_path: 0,
            set_var: 0,
            eval: 0,
            observe: 0,
            binds: 0,
            raw_choose: false,
            eval_knots: false,
            max_ops: 14,
        }
    }
}

impl HistProfile {
    pub fn everything() -> HistProfile {
        HistProfile {
            cont: 30,
            cont_max: 10,
            choose: 30,
            save: 5,
            load: 4,
            reset: 2,
            flows: 8,
            choose_path: 5,
            set_var: 4,
            eval: 4,
            observe: 4,
            binds: 0,
            raw_choose: false,
            eval_knots: false,
            max_ops: 16,
        }
    }
}

fn some_arg(t: &mut Tape, meta: &Meta) -> Arg {
    // now and then the host passes on what it has just read from a global: the only way it
    // gets hold of a list value (and of a divert target, which the engine must refuse)
    if !meta.globals.is_empty() && t.chance(1, 6) {
        return Arg::G(meta.globals[t.pick(meta.globals.len())].clone());
    }
    match t.pick(5) {
        0 => Arg::I(t.range(0, 9)),
        1 => Arg::I([i32::MAX, i32::MIN, -1, 0, 7][t.pick(5)]),
        2 => Arg::B(t.chance(1, 2)),
        3 => Arg::S(["x", "", "alpha", "3"][t.pick(4)].to_string()),
        _ => Arg::F([0.5, -1.25, 2.0][t.pick(3)]),
    }
}

/// Decode a history from a tape. Names come from the compiled story, so every op is
/// well-formed; whether it is *valid* in the state it meets is up to the story.
pub fn decode_history(tape: &[u16], meta: &Meta, hp: &HistProfile) -> Vec<HostOp> {
    let mut t = Tape::new(tape);
    let n = 1 + t.pick(hp.max_ops);
    let weights = [
        hp.cont,
        hp.choose,
        hp.cont_max,
        hp.save,
        hp.load,
        hp.reset,
        hp.flows,
        hp.choose_path,
        hp.set_var,
        hp.eval,
        hp.observe,
        hp.binds,
    ];
    let total: u32 = weights.iter().sum();
    let mut ops = vec![];
    for _ in 0..n {
        let mut r = (t.next() as u32 * total) >> 16;
        let mut kind = 0;
        for (i, w) in weights.iter().enumerate() {
            if r < *w {
                kind = i;
                break;
            }
            r -= w;
        }
        let op = match kind {
            0 => HostOp::Continue,
            1 if hp.raw_choose && t.chance(1, 4) => HostOp::Choose(t.pick(8)),
            1 => HostOp::ChooseMod(t.pick(6)),
            2 => HostOp::ContinueMax,
            3 => HostOp::Save,
            4 => HostOp::LoadLast,
            5 => HostOp::Reset,
            6 => match t.pick(5) {
                0 | 1 | 2 => HostOp::SwitchFlow(FLOW_NAMES[t.pick(FLOW_NAMES.len())].to_string()),
                3 => HostOp::SwitchDefault,
                _ => HostOp::RemoveFlow(FLOW_NAMES[t.pick(FLOW_NAMES.len())].to_string()),
            },
            7 => {
                let mut targets: Vec<String> = meta.knots.clone();
                targets.extend(meta.stitches.iter().cloned());
                if targets.is_empty() {
                    HostOp::Continue
                } else {
                    let path = targets[t.pick(targets.len())].clone();
                    let reset = !t.chance(1, 3);
                    let nargs = t.pick(3).saturating_sub(1);
                    let args = (0..nargs).map(|_| some_arg(&mut t, meta)).collect();
                    HostOp::ChoosePath { path, reset, args }
                }
            }
            8 => {
                if meta.globals.is_empty() {
                    HostOp::Continue
                } else {
                    let g = meta.globals[t.pick(meta.globals.len())].clone();
                    HostOp::SetVar(g, some_arg(&mut t, meta))
                }
            }
            9 => {
                if meta.knots.is_empty() {
                    HostOp::Continue
                } else {
                    // functions first (names starting with the function prefix), else any knot
                    let funcs: Vec<&String> =
                        meta.knots.iter().filter(|k| k.contains('f')).collect();
                    let name = if !hp.eval_knots {
                        // what the story itself calls as a function: evaluate_function is
                        // documented for functions only (run on a knot that forks threads or
                        // offers choices it leaves its frame on the call stack)
                        let _ = t.chance(1, 4);
                        if meta.functions.is_empty() {
                            let _ = t.pick(1);
                            String::new()
                        } else {
                            meta.functions[t.pick(meta.functions.len())].clone()
                        }
                    } else if !funcs.is_empty() && !t.chance(1, 4) {
                        funcs[t.pick(funcs.len())].clone()
                    } else {
                        meta.knots[t.pick(meta.knots.len())].clone()
                    };
                    if name.is_empty() {
                        ops.push(HostOp::Continue);
                        continue;
                    }
                    let nargs = t.pick(4);
                    let args = (0..nargs).map(|_| some_arg(&mut t, meta)).collect();
                    HostOp::Eval { func: name, args }
                }
            }
            11 => {
                if meta.externals.is_empty() {
                    HostOp::Continue
                } else {
                    let name = meta.externals[t.pick(meta.externals.len())].0.clone();
                    if t.chance(2, 3) {
                        HostOp::Unbind(name)
                    } else {
                        HostOp::Bind { name, safe: t.chance(1, 2) }
                    }
                }
            }
            _ => {
                if meta.globals.is_empty() {
                    HostOp::Continue
                } else {
                    let g = meta.globals[t.pick(meta.globals.len())].clone();
                    let obs = t.pick(N_OBSERVERS);
                    if t.chance(1, 4) {
                        HostOp::Unobserve {
                            obs,
                            var: if t.chance(1, 2) { Some(g) } else { None },
                        }
                    } else {
                        HostOp::Observe { obs, var: g }
                    }
                }
            }
        };
        ops.push(op);
    }
    ops
}

/// A compiled generated program.
pub struct Built {
    pub prog: Program,
    pub src: String,
    pub json: String,
    pub meta: Rc<Meta>,
}

pub enum BuildErr {
    CompileError(String),
    CompilerPanic(PanicInfo),
}

pub fn build(tape: &[u16], profile: &Profile) -> Result<Built, (String, BuildErr)> {
    let (prog, src) = if profile.idioms && tape.first().map(|v| v % 4 == 3).unwrap_or(false) {
        let mut t = Tape::new(&tape[1..]);
        let (src, _) = crate::idioms::gen_idiom_program(&mut t);
        (Program::default(), src)
    } else {
        let prog = gen_program(tape, profile);
        let src = prog.to_ink();
        (prog, src)
    };
    match guard(|| compile(&src)) {
        Err(p) => Err((src, BuildErr::CompilerPanic(p))),
        Ok(Err(e)) => Err((src, BuildErr::CompileError(e))),
        Ok(Ok(json)) => {
            let meta = Rc::new(meta_from_json(&json));
            Ok(Built {
                prog,
                src,
                json,
                meta,
            })
        }
    }
}

/// Build or count the discard. Compiler panics/errors on generated programs belong to
/// C06/C01; other checks only need programs that compile.
pub fn build_or_discard(tape: &[u16], profile: &Profile, acc: &mut Acc) -> Option<Built> {
    match build(tape, profile) {
        Ok(b) => Some(b),
        Err((_, BuildErr::CompileError(_))) => {
            acc.discard("compile_error");
            None
        }
        Err((_, BuildErr::CompilerPanic(_))) => {
            acc.discard("compiler_panic");
            None
        }
    }
}

pub fn compile_src(src: &str) -> Result<(String, Rc<Meta>), String> {
    match guard(|| compile(src)) {
        Err(p) => Err(format!("compiler panic at {}", p.site())),
        Ok(Err(e)) => Err(e),
        Ok(Ok(json)) => {
            let meta = Rc::new(meta_from_json(&json));
            Ok((json, meta))
        }
    }
}

pub fn cfg_to_json(c: &HostCfg) -> J {
    json!({"seed": c.seed, "fuel": c.fuel, "handler": c.handler,
        "bind_externals": c.bind_externals, "allow_fallbacks": c.allow_fallbacks})
}

pub fn cfg_from_json(j: &J) -> HostCfg {
    let d = HostCfg::default();
    HostCfg {
        seed: j["seed"].as_i64().map(|v| v as i32).unwrap_or(d.seed),
        fuel: j["fuel"].as_u64().unwrap_or(d.fuel),
        handler: j["handler"].as_bool().unwrap_or(d.handler),
        bind_externals: match &j["bind_externals"] {
            J::Bool(b) => Some(*b),
            J::Null => {
                if j.get("bind_externals").is_some() {
                    None
                } else {
                    d.bind_externals
                }
            }
            _ => d.bind_externals,
        },
        allow_fallbacks: j["allow_fallbacks"].as_bool().unwrap_or(d.allow_fallbacks),
    }
}

/// story document of a case: either ink source (compiled by the tree under test) or JSON
pub fn case_story(case: &J) -> Result<(String, Rc<Meta>), Fail> {
    if let Some(src) = case["source"].as_str() {
        compile_src(src).map_err(|e| Fail::harness(format!("replay source does not compile: {e}")))
    } else if let Some(doc) = case["json_document"].as_str() {
        Ok((doc.to_string(), Rc::new(meta_from_json(doc))))
    } else if let Some(p) = case["corpus_file"].as_str() {
        let doc = std::fs::read_to_string(p)
            .map_err(|e| Fail::harness(format!("cannot read {p}: {e}")))?;
        if p.ends_with(".ink") {
            compile_src(&doc).map_err(|e| Fail::harness(format!("corpus source does not compile: {e}")))
        } else {
            let m = Rc::new(meta_from_json(&doc));
            Ok((doc, m))
        }
    } else {
        Err(Fail::harness("case has no story"))
    }
}

// ------------------------------------------------------------------------------------
// corpus

pub fn corpus_dir() -> std::path::PathBuf {
    std::path::PathBuf::from(
        std::env::var("VERIF_REPO").unwrap_or_else(|_| "/repo".into()),
    )
    .join("conformance-tests/inkfiles")
}

fn walk(dir: &std::path::Path, out: &mut Vec<std::path::PathBuf>) {
    if let Ok(rd) = std::fs::read_dir(dir) {
        let mut es: Vec<_> = rd.filter_map(|e| e.ok()).map(|e| e.path()).collect();
        es.sort();
        for p in es {
            if p.is_dir() {
                walk(&p, out);
            } else {
                out.push(p);
            }
        }
    }
}

/// all `.ink` sources of the corpus (sorted)
pub fn corpus_sources() -> Vec<std::path::PathBuf> {
    let mut v = vec![];
    walk(&corpus_dir(), &mut v);
    v.retain(|p| p.extension().map(|e| e == "ink").unwrap_or(false));
    v
}

/// all reference-compiled `.ink.json` documents (sorted)
pub fn corpus_jsons() -> Vec<std::path::PathBuf> {
    let mut v = vec![];
    walk(&corpus_dir(), &mut v);
    v.retain(|p| p.to_string_lossy().ends_with(".ink.json"));
    v
}

/// (source, reference json) pairs
pub fn corpus_pairs() -> Vec<(std::path::PathBuf, std::path::PathBuf)> {
    corpus_sources()
        .into_iter()
        .filter_map(|s| {
            let j = std::path::PathBuf::from(format!("{}.json", s.display()));
            if j.exists() { Some((s, j)) } else { None }
        })
        .collect()
}

/// compile a corpus source, resolving INCLUDEs relative to the file
pub fn compile_file(p: &std::path::Path) -> Result<String, String> {
    let src = std::fs::read_to_string(p).map_err(|e| e.to_string())?;
    let dir = p.parent().unwrap().to_path_buf();
    let r = guard(|| {
        bladeink_compiler::Compiler::new().compile_with_file_handler(&src, |name| {
            std::fs::read_to_string(dir.join(name)).map_err(|e| {
                bladeink_compiler::CompilerError::invalid_source(format!("include {name}: {e}"))
            })
        })
    });
    match r {
        Err(p) => Err(format!("compiler panic at {}", p.site())),
        Ok(Err(e)) => Err(e.to_string()),
        Ok(Ok(j)) => Ok(j),
    }
}

pub fn strip_bom(s: &str) -> &str {
    s.strip_prefix('\u{feff}').unwrap_or(s)
}
