//! Coverage-guided campaigns (libFuzzer through cargo-fuzz) for the two byte-level surfaces:
//! the compiler (C06) and the story / save loaders (C15). Thorough tier only. The semantic
//! oracles live inside the targets (harness/fuzz/fuzz_targets/*.rs); a crash artifact is
//! re-executed through the check's own `exec` to obtain its key and a replay file.
use crate::engine::*;
use serde_json::{Value as J, json};
use std::path::{Path, PathBuf};
use std::process::Command;

pub const FIXED_STORY: &str = include_str!("../fuzz/fixed_story.ink");

pub struct Campaign<'a> {
    pub target: &'a str,
    pub runs: u64,
    pub max_len: usize,
    /// seed inputs written into a fresh corpus directory (name, bytes)
    pub seeds: Vec<(String, Vec<u8>)>,
}

pub struct CampaignResult {
    pub executed: bool,
    pub note: String,
    /// crash artifacts (raw inputs)
    pub crashes: Vec<Vec<u8>>,
    pub stderr_tail: String,
}

fn fuzz_dir(env: &Env) -> PathBuf {
    env.verif.join("harness").join("fuzz")
}

pub fn build(env: &Env) -> Result<(), String> {
    let out = Command::new("cargo")
        .args(["+nightly", "fuzz", "build", "--target-dir"])
        .arg(env.verif.join(".build").join("fuzz"))
        .current_dir(fuzz_dir(env))
        .env("CARGO_NET_OFFLINE", "true")
        .output()
        .map_err(|e| format!("cannot start cargo fuzz: {e}"))?;
    if !out.status.success() {
        let err = String::from_utf8_lossy(&out.stderr);
        return Err(format!(
            "cargo +nightly fuzz build failed: {}",
            err.lines().rev().take(8).collect::<Vec<_>>().join(" | ")
        ));
    }
    Ok(())
}

pub fn run(env: &Env, c: &Campaign) -> CampaignResult {
    let work = env.verif.join(".build").join("fuzz-work").join(format!("{}-{}", c.target, std::process::id()));
    let _ = std::fs::remove_dir_all(&work);
    let corpus = work.join("corpus");
    let arts = work.join("artifacts");
    let _ = std::fs::create_dir_all(&corpus);
    let _ = std::fs::create_dir_all(&arts);
    for (name, bytes) in &c.seeds {
        let _ = std::fs::write(corpus.join(name), bytes);
    }
    let out = Command::new("cargo")
        .args(["+nightly", "fuzz", "run", "--target-dir"])
        .arg(env.verif.join(".build").join("fuzz"))
        .arg(c.target)
        .arg(&corpus)
        .arg("--")
        .arg(format!("-runs={}", c.runs))
        .arg(format!("-seed={}", (env.seed % 0xffff_fff0) + 1))
        .arg(format!("-max_len={}", c.max_len))
        .arg("-len_control=0")
        .arg("-timeout=30")
        .arg("-rss_limit_mb=4096")
        .arg(format!("-artifact_prefix={}/", arts.display()))
        .current_dir(fuzz_dir(env))
        .env("CARGO_NET_OFFLINE", "true")
        .output();
    let out = match out {
        Ok(o) => o,
        Err(e) => {
            return CampaignResult { executed: false, note: format!("cannot start cargo fuzz run: {e}"), crashes: vec![], stderr_tail: String::new() };
        }
    };
    let stderr = String::from_utf8_lossy(&out.stderr).to_string();
    let tail: String = stderr.lines().rev().take(30).collect::<Vec<_>>().into_iter().rev().collect::<Vec<_>>().join("\n");
    let mut crashes = vec![];
    if let Ok(rd) = std::fs::read_dir(&arts) {
        let mut ps: Vec<PathBuf> = rd.filter_map(|e| e.ok()).map(|e| e.path()).collect();
        ps.sort();
        for p in ps {
            if let Ok(b) = std::fs::read(&p) {
                crashes.push(b);
            }
        }
    }
    let done = stderr.lines().any(|l| l.starts_with("Done ") && l.contains(" runs in "));
    let note = if done {
        format!("{} runs completed", c.runs)
    } else if !crashes.is_empty() {
        "stopped at the first crash".to_string()
    } else {
        format!("ended without completing (status {:?})", out.status)
    };
    let executed = done || !crashes.is_empty();
    let _ = std::fs::remove_dir_all(&work);
    CampaignResult { executed, note, crashes, stderr_tail: tail }
}

/// Turn the outcome of a campaign into report entries. `to_case` wraps a raw input into the
/// check's replayable case; `exec` is the check's own executor.
pub fn absorb(
    rep: &mut Report,
    c: &Campaign,
    r: CampaignResult,
    to_case: &dyn Fn(&[u8]) -> J,
    exec: &dyn Fn(&J, &mut Acc) -> Result<(), Fail>,
) {
    rep.extra.insert(
        format!("libfuzzer:{}", c.target),
        json!({"runs_requested": c.runs, "seed_inputs": c.seeds.len(), "outcome": r.note, "crash_artifacts": r.crashes.len()}),
    );
    if !r.executed {
        rep.health_errors.push(format!("libFuzzer campaign {} did not run: {} | {}", c.target, r.note, r.stderr_tail.replace('\n', " | ")));
        return;
    }
    rep.acc.evals(c.runs);
    for bytes in r.crashes.iter().take(3) {
        let case = to_case(bytes);
        let mut acc = Acc::default();
        match exec(&case, &mut acc) {
            Err(f) => rep.fails.push(f),
            Ok(()) => rep.fails.push(Fail::violation(
                format!("fuzz-crash:{}", c.target),
                format!(
                    "libFuzzer target {} crashed on this input (the in-target oracle failed; the harness executor does not reproduce it): {}",
                    c.target,
                    r.stderr_tail.lines().filter(|l| l.contains("panicked") || l.contains("C06") || l.contains("C15") || l.contains("ERROR")).take(4).collect::<Vec<_>>().join(" | ")
                ),
                case,
            )),
        }
    }
}

pub fn small_files(dir: &Path, suffix: &str, max_bytes: u64, limit: usize) -> Vec<(String, Vec<u8>)> {
    fn walk(d: &Path, out: &mut Vec<PathBuf>) {
        if let Ok(rd) = std::fs::read_dir(d) {
            let mut es: Vec<PathBuf> = rd.filter_map(|e| e.ok()).map(|e| e.path()).collect();
            es.sort();
            for p in es {
                if p.is_dir() {
                    walk(&p, out);
                } else {
                    out.push(p);
                }
            }
        }
    }
    let mut files = vec![];
    walk(dir, &mut files);
    let mut v = vec![];
    for p in files {
        if !p.to_string_lossy().ends_with(suffix) {
            continue;
        }
        if let Ok(m) = std::fs::metadata(&p) {
            if m.len() > max_bytes {
                continue;
            }
        }
        if let Ok(b) = std::fs::read(&p) {
            v.push((format!("seed{:04}", v.len()), b));
        }
        if v.len() >= limit {
            break;
        }
    }
    v
}

/// the fixed story compiled, and saves taken along a few walks through it (seed inputs of the
/// `load_save` target)
pub fn save_seeds() -> Option<(String, Vec<(String, Vec<u8>)>)> {
    use crate::rt::*;
    let (story_json, meta) = crate::common::compile_src(FIXED_STORY).ok()?;
    let mut seeds = vec![];
    for walk in 0..6usize {
        let saved = guard(|| {
            let mut h = Host::new(&story_json, meta.clone(), &HostCfg::default()).ok()?;
            let mut out = vec![];
            for step in 0..(2 + walk) {
                h.apply(&HostOp::Continue);
                if step % 2 == 1 {
                    h.apply(&HostOp::ChooseMod(walk + step));
                }
                if step == 2 {
                    h.apply(&HostOp::SwitchFlow("fa".into()));
                }
                if let Ok(s) = h.story.save_state() {
                    out.push(s);
                }
            }
            Some(out)
        });
        if let Ok(Some(v)) = saved {
            for s in v {
                seeds.push((format!("save{:03}", seeds.len()), s.into_bytes()));
            }
        }
    }
    Some((story_json, seeds))
}

/// dev-fuzz TARGET RUNS: one campaign, outcome printed (used to try the targets by hand)
pub fn dev(env: &Env, rest: &[String]) -> i32 {
    let target = rest.first().map(|s| s.as_str()).unwrap_or("compile");
    let runs: u64 = rest.get(1).and_then(|s| s.parse().ok()).unwrap_or(20000);
    if let Err(e) = build(env) {
        println!("{e}");
        return 2;
    }
    let seeds = match target {
        "compile" => small_files(&crate::common::corpus_dir(), ".ink", 6000, 200),
        "load_story" => small_files(&crate::common::corpus_dir(), ".ink.json", 16000, 150),
        _ => save_seeds().map(|x| x.1).unwrap_or_default(),
    };
    let tname: &'static str = match target {
        "compile" => "compile",
        "load_story" => "load_story",
        _ => "load_save",
    };
    let c = Campaign { target: tname, runs, max_len: 16384, seeds };
    let r = run(env, &c);
    println!("{}: {} ; crashes: {}", target, r.note, r.crashes.len());
    let keep = env.verif.join(".build").join("fuzz-crashes");
    let _ = std::fs::create_dir_all(&keep);
    for (i, b) in r.crashes.iter().enumerate() {
        let p = keep.join(format!("{target}-{i}"));
        let _ = std::fs::write(&p, b);
        println!("--- input {} ({} bytes) kept as {}: {:?}", i, b.len(), p.display(), String::from_utf8_lossy(b).chars().take(200).collect::<String>());
    }
    if !r.crashes.is_empty() {
        println!("{}", r.stderr_tail);
    }
    0
}
