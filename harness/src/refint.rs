//! Independent source-level reference interpreter for core Ink (C01).
//!
//! It interprets the generator's AST (`ast::Program`), never the compiled JSON, and shares no
//! code with /repo. The rules are the Ink language rules as documented (Writing with Ink,
//! the reference engine's documented output rules): weave flow (choices end the turn, loose
//! ends go to the next gather), once-only / sticky / conditional / fallback choices with
//! `start[choice-only]end` text, sequences, read counts (knots and stitches count when flow
//! enters them from outside, labelled gathers and choices when flow arrives at their start),
//! TURNS_SINCE / TURNS / CHOICE_COUNT, tunnels, functions (by-value and `ref` parameters,
//! text output trimmed at both ends), threads (forked call stack; choices remember their
//! thread), glue, tags, and the whitespace / newline rules of the output stream.
//!
//! One `turn()` produces everything up to the next stop (choices, end, or error): the
//! lines (text with trailing `\n`, tags), then the visible choices.
use crate::ast::*;
use std::collections::{BTreeMap, HashMap};

// ------------------------------------------------------------------------------------
// values

#[derive(Debug, Clone, PartialEq)]
pub enum Val {
    I(i32),
    B(bool),
    S(String),
    /// divert target value
    D(String),
    /// reference to a variable: (name, frame index + 1, or 0 for a global)
    Ref(String, usize),
    Void,
}

impl Val {
    pub fn render(&self) -> String {
        match self {
            Val::I(i) => format!("I:{i}"),
            Val::B(b) => format!("B:{b}"),
            Val::S(s) => format!("S:{s:?}"),
            Val::D(p) => format!("D:{p}"),
            Val::Ref(..) => "P:?".into(),
            Val::Void => "none".into(),
        }
    }
    fn print(&self) -> String {
        match self {
            Val::I(i) => format!("{i}"),
            Val::B(b) => format!("{b}"),
            Val::S(s) => s.clone(),
            Val::D(p) => p.clone(),
            Val::Ref(..) | Val::Void => String::new(),
        }
    }
    fn truthy(&self) -> Result<bool, String> {
        match self {
            Val::I(i) => Ok(*i != 0),
            Val::B(b) => Ok(*b),
            Val::S(s) => Ok(!s.is_empty()),
            Val::D(_) => Err("divert target used as a condition".into()),
            _ => Ok(false),
        }
    }
}

// ------------------------------------------------------------------------------------
// lowered program

#[derive(Debug, Clone)]
enum LI {
    Text(String),
    Expr(Expr),
    Cond(Expr, Vec<LI>, Vec<LI>),
    Seq(usize, SeqKind, Vec<Vec<LI>>),
    Glue,
}

#[derive(Debug, Clone)]
enum Op {
    Content(Vec<LI>),
    Tag(String),
    Newline,
    Assign { name: String, expr: Expr, decl: bool },
    AssignOp { name: String, op: &'static str, expr: Expr },
    CallStmt(String, Vec<Expr>),
    Divert(String, Vec<Expr>),
    /// internal jump that behaves like an Ink divert (loose end -> gather)
    Goto(usize),
    /// internal jump without any counting (conditional plumbing)
    Jump(usize),
    JumpIfFalse(Expr, usize),
    Tunnel(String, Vec<Expr>),
    Thread(String, Vec<Expr>),
    TunnelReturn,
    TunnelOnwards(String, Vec<Expr>),
    Done,
    End,
    Return(Option<Expr>),
    Choice(usize),
    OutOfContent,
    /// multi-line sequence: jump to the element the counter selects (or past the block)
    SeqSwitch { id: usize, kind: SeqKind, targets: Vec<usize>, end: usize },
}

#[derive(Debug, Clone)]
struct ChoiceInfo {
    sticky: bool,
    fallback: bool,
    conds: Vec<Expr>,
    start: Vec<LI>,
    bracket: Option<Vec<LI>>,
    /// tags that belong to the start content (choice without brackets): shown on the
    /// choice and again on the chosen line
    start_tags: Vec<String>,
    body: usize,
}

#[derive(Debug, Clone)]
struct Region {
    name: String,
    start: usize,
    end: usize,
    start_only: bool,
}

#[derive(Debug, Clone)]
struct FuncInfo {
    pos: usize,
    params: Vec<(String, bool)>,
}

pub struct Lowered {
    ops: Vec<Op>,
    regions: Vec<Region>,
    entry: HashMap<String, usize>,
    knot_params: HashMap<String, Vec<String>>,
    funcs: HashMap<String, FuncInfo>,
    choices: Vec<ChoiceInfo>,
    nseq: usize,
    globals: Vec<(String, Expr)>,
    /// names a host can ask visit counts for (knots, stitches)
    pub count_names: Vec<String>,
}

struct Lower {
    ops: Vec<Op>,
    regions: Vec<Region>,
    entry: HashMap<String, usize>,
    choices: Vec<ChoiceInfo>,
    nseq: usize,
    scope: String,
    /// lowering the main flow: running out of content there is the implicit DONE
    root: bool,
    after_gather: bool,
}

impl Lower {
    fn li(&mut self, v: &[Inline]) -> Vec<LI> {
        // text that is contiguous in the source is one piece of content
        let mut out: Vec<LI> = vec![];
        for x in self.li_raw(v) {
            match (out.last_mut(), &x) {
                (Some(LI::Text(a)), LI::Text(b)) => a.push_str(b),
                _ => out.push(x),
            }
        }
        out
    }

    fn li_raw(&mut self, v: &[Inline]) -> Vec<LI> {
        v.iter()
            .map(|i| match i {
                Inline::Text(t) => LI::Text(t.clone()),
                Inline::Expr(e) => LI::Expr(e.clone()),
                Inline::Cond(c, a, b) => LI::Cond(c.clone(), self.li(a), self.li(b)),
                Inline::Seq(k, alts) => {
                    let id = self.nseq;
                    self.nseq += 1;
                    let alts = alts.iter().map(|a| self.li(a)).collect();
                    LI::Seq(id, k.clone(), alts)
                }
                Inline::Glue => LI::Glue,
            })
            .collect()
    }

    fn line(&mut self, l: &TextLine) {
        let mut parts = self.li(&l.parts);
        if l.divert.is_some() {
            // text before a divert on the same line ends with exactly one space
            trim_end_li(&mut parts);
            parts.push(LI::Text(" ".into()));
        } else {
            trim_end_li(&mut parts);
        }
        if !l.tags.is_empty() {
            // the text in front of a tag keeps the space the source has there
            parts.push(LI::Text(" ".into()));
        }
        let parts = merge_texts(parts);
        self.ops.push(Op::Content(parts));
        for t in &l.tags {
            self.ops.push(Op::Tag(t.clone()));
        }
        match &l.divert {
            Some(d) => self.divert_named(d),
            None => self.ops.push(Op::Newline),
        }
    }

    fn divert_named(&mut self, d: &str) {
        match d {
            "END" => self.ops.push(Op::End),
            "DONE" => self.ops.push(Op::Done),
            _ => self.ops.push(Op::Divert(d.to_string(), vec![])),
        }
    }

    fn stmts(&mut self, v: &[Stmt]) {
        for s in v {
            self.stmt(s);
        }
    }

    fn stmt(&mut self, s: &Stmt) {
        match s {
            Stmt::Line(l) => self.line(l),
            Stmt::TempDecl(n, e) => {
                self.ops.push(Op::Assign { name: n.clone(), expr: e.clone(), decl: true });
                if has_call(e) {
                    self.ops.push(Op::Newline);
                }
            }
            Stmt::Assign(n, e) => {
                self.ops.push(Op::Assign { name: n.clone(), expr: e.clone(), decl: false });
                if has_call(e) {
                    self.ops.push(Op::Newline);
                }
            }
            Stmt::AssignOp(n, op, e) => {
                self.ops.push(Op::AssignOp { name: n.clone(), op, expr: e.clone() });
                if has_call(e) {
                    self.ops.push(Op::Newline);
                }
            }
            Stmt::Call(f, args) => {
                self.ops.push(Op::CallStmt(f.clone(), args.clone()));
                self.ops.push(Op::Newline);
            }
            Stmt::Divert(t, args) => self.ops.push(Op::Divert(t.clone(), args.clone())),
            Stmt::Tunnel(t, args) => self.ops.push(Op::Tunnel(t.clone(), args.clone())),
            Stmt::Thread(t, a) => self.ops.push(Op::Thread(t.clone(), a.clone())),
            Stmt::TunnelReturn => self.ops.push(Op::TunnelReturn),
            Stmt::TunnelOnwards(t, a) => self.ops.push(Op::TunnelOnwards(t.clone(), a.clone())),
            Stmt::Done => self.ops.push(Op::Done),
            Stmt::End => self.ops.push(Op::End),
            Stmt::Return(e) => self.ops.push(Op::Return(e.clone())),
            Stmt::Switch(var, cases, els) => {
                // the first case equal to the value wins; the same shape as a conditional block
                let branches: Vec<(Expr, Vec<Stmt>)> = cases
                    .iter()
                    .map(|(v, b)| (Expr::Bin("==", Box::new(Expr::Var(var.clone())), Box::new(Expr::int(*v))), b.clone()))
                    .collect();
                self.stmt(&Stmt::If(branches, els.clone()));
            }
            Stmt::SeqBlock(kind, branches) => {
                let id = self.nseq;
                self.nseq += 1;
                let sw = self.ops.len();
                self.ops.push(Op::SeqSwitch { id, kind: kind.clone(), targets: vec![], end: 0 });
                let mut targets = vec![];
                let mut exits = vec![];
                for lines in branches {
                    targets.push(self.ops.len());
                    // an element starts on a line of its own
                    self.ops.push(Op::Newline);
                    for l in lines {
                        self.line(l);
                    }
                    exits.push(self.ops.len());
                    self.ops.push(Op::Jump(0));
                }
                let end = self.ops.len();
                for x in exits {
                    if let Op::Jump(t) = &mut self.ops[x] {
                        *t = end;
                    }
                }
                if let Op::SeqSwitch { targets: t, end: e, .. } = &mut self.ops[sw] {
                    *t = targets;
                    *e = end;
                }
                // the line that holds the block ends
                self.ops.push(Op::Newline);
            }
            Stmt::If(branches, els) => {
                // { - c1: block - c2: block - else: block } ; the line that holds the block
                // ends in a newline of its own
                let mut exits = vec![];
                for (c, body) in branches {
                    let j = self.ops.len();
                    self.ops.push(Op::JumpIfFalse(c.clone(), 0));
                    // the content of a branch starts on a line of its own
                    self.ops.push(Op::Newline);
                    self.stmts(body);
                    exits.push(self.ops.len());
                    self.ops.push(Op::Jump(0));
                    let here = self.ops.len();
                    if let Op::JumpIfFalse(_, t) = &mut self.ops[j] {
                        *t = here;
                    }
                }
                if let Some(e) = els {
                    self.ops.push(Op::Newline);
                    self.stmts(e);
                }
                let here = self.ops.len();
                for x in exits {
                    if let Op::Jump(t) = &mut self.ops[x] {
                        *t = here;
                    }
                }
                self.ops.push(Op::Newline);
            }
        }
    }

    /// `cont`: where a loose end of this block goes (a list of Goto ops to patch is returned
    /// through `loose`)
    fn block(&mut self, b: &Block, loose: &mut Vec<usize>, has_cont: bool, nested: bool) -> Option<usize> {
        self.stmts(&b.stmts);
        let ends_in_divert = matches!(b.stmts.last(), Some(Stmt::Line(l)) if l.divert.is_some())
            || matches!(
                b.stmts.last(),
                Some(Stmt::Divert(..) | Stmt::End | Stmt::Done | Stmt::TunnelReturn | Stmt::TunnelOnwards(..) | Stmt::Return(_))
            );
        match &b.group {
            None => {
                if !ends_in_divert {
                    if has_cont {
                        loose.push(self.ops.len());
                        self.ops.push(Op::Goto(0));
                    } else if self.root && !nested {
                        // loose ends of the main flow reach its implicit final gather
                        self.ops.push(Op::Done);
                    } else {
                        self.ops.push(Op::OutOfContent);
                    }
                }
                None
            }
            Some(g) => {
                let first = self.choices.len();
                for c in &g.choices {
                    let id = self.choices.len();
                    let no_bracket = c.bracket.is_none();
                    let mut start = self.li(&c.start);
                    let mut end = self.li(&c.end);
                    if no_bracket {
                        // without brackets the whole line is start content
                        start.append(&mut end);
                    }
                    let bracket = c.bracket.as_ref().map(|b| self.li(b));
                    self.choices.push(ChoiceInfo {
                        sticky: c.sticky,
                        fallback: c.fallback,
                        conds: c.conds.clone(),
                        start,
                        bracket,
                        start_tags: if no_bracket { c.tags.clone() } else { vec![] },
                        body: 0,
                    });
                    self.ops.push(Op::Choice(id));
                }
                // in the main flow the first section is followed by the implicit `done`; sections
                // after a gather simply run out of content
                self.ops.push(if self.root && !nested && !self.after_gather { Op::Done } else { Op::OutOfContent });
                let mut my_loose = vec![];
                for (k, c) in g.choices.iter().enumerate() {
                    let id = first + k;
                    let body_start = self.ops.len();
                    self.choices[id].body = body_start;
                    // chosen output: start content again, then the text after the bracket,
                    // tags, an optional divert, and the end of the line
                    if !c.fallback {
                        let mut out = self.choices[id].start.clone();
                        if c.bracket.is_some() {
                            out.append(&mut self.li(&c.end));
                        }
                        if c.divert.is_some() {
                            // the space in front of `->` belongs to the chosen text
                            trim_end_li(&mut out);
                            out.push(LI::Text(" ".into()));
                        } else {
                            trim_end_li(&mut out);
                        }
                        if !c.tags.is_empty() && !li_is_empty(&out) {
                            out.push(LI::Text(" ".into()));
                        }
                        self.ops.push(Op::Content(out));
                        for t in &c.tags {
                            self.ops.push(Op::Tag(t.clone()));
                        }
                    }
                    if let Some(d) = &c.divert {
                        self.divert_named(d);
                    }
                    self.ops.push(Op::Newline);
                    let has_gather = g.gather.is_some();
                    self.block(&c.body, &mut my_loose, has_gather, true);
                    let body_end = self.ops.len();
                    if let Some(l) = &c.label {
                        self.regions.push(Region {
                            name: self.qualify(l),
                            start: body_start,
                            end: body_end,
                            start_only: true,
                        });
                    }
                }
                if let Some((ga, rest)) = &g.gather {
                    let gpos = self.ops.len();
                    for i in my_loose {
                        if let Op::Goto(t) = &mut self.ops[i] {
                            *t = gpos;
                        }
                    }
                    if let Some(l) = &ga.line {
                        self.line(l);
                    }
                    // the gather's own region ends where the next gather of this level starts
                    let region_idx = ga.label.as_ref().map(|l| {
                        self.regions.push(Region {
                            name: self.qualify(l),
                            start: gpos,
                            end: 0,
                            start_only: true,
                        });
                        self.regions.len() - 1
                    });
                    let saved = self.after_gather;
                    if !nested {
                        self.after_gather = true;
                    }
                    let next = self.block(rest, loose, has_cont, nested);
                    self.after_gather = saved;
                    let end = next.unwrap_or(self.ops.len());
                    if let Some(ri) = region_idx {
                        self.regions[ri].end = end;
                    }
                    Some(gpos)
                } else {
                    None
                }
            }
        }
    }

    fn qualify(&self, l: &str) -> String {
        if self.scope.is_empty() {
            l.to_string()
        } else {
            format!("{}.{}", self.scope, l)
        }
    }
}

fn merge_texts(v: Vec<LI>) -> Vec<LI> {
    let mut out: Vec<LI> = vec![];
    for x in v {
        match (out.last_mut(), &x) {
            (Some(LI::Text(a)), LI::Text(b)) => a.push_str(b),
            _ => out.push(x),
        }
    }
    out
}

fn trim_end_li(v: &mut Vec<LI>) {
    while let Some(LI::Text(t)) = v.last_mut() {
        let n = t.trim_end_matches([' ', '\t']).len();
        t.truncate(n);
        if t.is_empty() {
            v.pop();
        } else {
            break;
        }
    }
}

fn li_is_empty(v: &[LI]) -> bool {
    v.is_empty()
}

fn has_call(e: &Expr) -> bool {
    let mut found = false;
    e.walk(&mut |x| {
        if matches!(
            x,
            Expr::Call(..) | Expr::Random(..) | Expr::TurnsSince(_) | Expr::ChoiceCount | Expr::Turns
        ) {
            found = true;
        }
    });
    found
}

pub fn lower(p: &Program) -> Lowered {
    let mut lw = Lower {
        ops: vec![],
        regions: vec![],
        entry: HashMap::new(),
        choices: vec![],
        nseq: 0,
        scope: String::new(),
        root: true,
        after_gather: false,
    };
    let mut count_names = vec![];
    let mut knot_params = HashMap::new();
    let mut funcs = HashMap::new();
    // root
    let mut loose = vec![];
    lw.block(&p.root, &mut loose, false, false);
    lw.root = false;
    for k in &p.knots {
        let kstart = lw.ops.len();
        lw.scope = k.name.clone();
        lw.entry.insert(k.name.clone(), kstart);
        knot_params.insert(k.name.clone(), k.params.clone());
        count_names.push(k.name.clone());
        let mut loose = vec![];
        lw.block(&k.body, &mut loose, false, false);
        for s in &k.stitches {
            let sstart = lw.ops.len();
            let sname = format!("{}.{}", k.name, s.name);
            lw.scope = sname.clone();
            lw.entry.insert(sname.clone(), sstart);
            count_names.push(sname.clone());
            let mut loose = vec![];
            lw.block(&s.body, &mut loose, false, false);
            lw.regions.push(Region {
                name: sname,
                start: sstart,
                end: lw.ops.len(),
                start_only: false,
            });
        }
        lw.regions.push(Region {
            name: k.name.clone(),
            start: kstart,
            end: lw.ops.len(),
            start_only: false,
        });
    }
    for f in &p.functions {
        let fstart = lw.ops.len();
        lw.scope = f.name.clone();
        lw.entry.insert(f.name.clone(), fstart);
        lw.stmts(&f.body);
        lw.ops.push(Op::OutOfContent);
        funcs.insert(
            f.name.clone(),
            FuncInfo {
                pos: fstart,
                params: f
                    .params
                    .iter()
                    .map(|p| match p.strip_prefix("ref ") {
                        Some(n) => (n.to_string(), true),
                        None => (p.clone(), false),
                    })
                    .collect(),
            },
        );
        lw.regions.push(Region {
            name: f.name.clone(),
            start: fstart,
            end: lw.ops.len(),
            start_only: false,
        });
    }
    // labels are also entry points
    for r in &lw.regions {
        lw.entry.entry(r.name.clone()).or_insert(r.start);
    }
    Lowered {
        ops: lw.ops,
        regions: lw.regions,
        entry: lw.entry,
        knot_params,
        funcs,
        choices: lw.choices,
        nseq: lw.nseq,
        globals: p.globals.iter().map(|g| (g.name.clone(), g.init.clone())).collect(),
        count_names,
    }
}

// ------------------------------------------------------------------------------------
// output stream

#[derive(Debug, Clone, PartialEq)]
enum Out {
    Text(String),
    Glue,
    TagBegin,
    TagEnd,
    BeginString,
}

fn is_newline(s: &str) -> bool {
    s == "\n"
}
fn is_inline_ws(s: &str) -> bool {
    s.chars().all(|c| c == ' ' || c == '\t')
}
fn is_nonws(s: &str) -> bool {
    s.chars().any(|c| !(c == ' ' || c == '\t' || c == '\n'))
}

/// whitespace rules applied when text is read back: inline whitespace at line starts and
/// ends removed, runs of spaces/tabs collapsed to one space
pub fn clean_ws(s: &str) -> String {
    let mut out = String::new();
    for (i, line) in s.split('\n').enumerate() {
        if i > 0 {
            out.push('\n');
        }
        let mut first = true;
        for w in line.split([' ', '\t']).filter(|w| !w.is_empty()) {
            if !first {
                out.push(' ');
            }
            out.push_str(w);
            first = false;
        }
    }
    out
}

#[derive(Debug, Clone, PartialEq)]
enum FrameKind {
    Base,
    Tunnel,
    Function,
}

#[derive(Debug, Clone)]
struct Frame {
    kind: FrameKind,
    pos: usize,
    temps: BTreeMap<String, Val>,
    /// where this function's output starts in the stream (None once real text was printed)
    fn_start: Option<usize>,
}

#[derive(Debug, Clone)]
struct Thread {
    frames: Vec<Frame>,
    /// position of the last executed op (for "entered from outside")
    prev: Option<usize>,
}

#[derive(Debug, Clone)]
struct Pending {
    id: usize,
    text: String,
    tags: Vec<String>,
    invisible: bool,
    thread: Thread,
    /// position of the choice point (previous position when chosen)
    at: usize,
}

#[derive(Debug, Clone, PartialEq)]
pub struct RLine {
    pub text: String,
    pub tags: Vec<String>,
}

#[derive(Debug, Clone, PartialEq)]
pub enum Stop {
    Choices(Vec<(String, Vec<String>)>),
    End,
    Error(String),
    Fuel,
}

pub struct Machine<'a> {
    lw: &'a Lowered,
    threads: Vec<Thread>,
    out: Vec<Out>,
    pending: Vec<Pending>,
    globals: BTreeMap<String, Val>,
    visits: HashMap<String, i32>,
    last_turn: HashMap<String, i32>,
    chosen: HashMap<usize, i32>,
    seq: HashMap<usize, i32>,
    turn: i32,
    /// a safe exit (-> DONE) happened, at this length of the output stream
    safe_exit: Option<usize>,
    alive: bool,
    fuel: u64,
    /// string-evaluation nesting (choice text)
    in_string: usize,
    events: std::collections::BTreeSet<&'static str>,
    string_tags: Vec<String>,
}

type R<T> = Result<T, String>;

const FUEL_MSG: &str = "REFINT_FUEL";

impl<'a> Machine<'a> {
    pub fn new(lw: &'a Lowered) -> R<Machine<'a>> {
        let mut m = Machine {
            lw,
            threads: vec![Thread {
                frames: vec![Frame { kind: FrameKind::Base, pos: 0, temps: BTreeMap::new(), fn_start: None }],
                prev: None,
            }],
            out: vec![],
            pending: vec![],
            globals: BTreeMap::new(),
            visits: HashMap::new(),
            last_turn: HashMap::new(),
            chosen: HashMap::new(),
            seq: HashMap::new(),
            turn: -1,
            safe_exit: None,
            alive: true,
            fuel: 200_000,
            in_string: 0,
            events: Default::default(),
            string_tags: vec![],
        };
        for (n, e) in &lw.globals {
            let v = m.eval(e)?;
            m.globals.insert(n.clone(), v);
        }
        Ok(m)
    }

    pub fn events(&self) -> Vec<&'static str> {
        self.events.iter().copied().collect()
    }
    pub fn global(&self, n: &str) -> Option<&Val> {
        self.globals.get(n)
    }
    pub fn visit_count(&self, n: &str) -> i32 {
        *self.visits.get(n).unwrap_or(&0)
    }

    fn thread(&mut self) -> &mut Thread {
        self.threads.last_mut().unwrap()
    }
    fn frame(&mut self) -> &mut Frame {
        self.thread().frames.last_mut().unwrap()
    }

    // ---------------------------------------------------------------- output

    fn push_text(&mut self, s: &str) {
        if s.is_empty() {
            return;
        }
        // where does the current function call begin?
        let mut fn_trim: Option<usize> = None;
        {
            let f = self.threads.last().unwrap().frames.last().unwrap();
            if f.kind == FrameKind::Function {
                fn_trim = f.fn_start;
            }
        }
        let mut glue_trim: Option<usize> = None;
        for i in (0..self.out.len()).rev() {
            match &self.out[i] {
                Out::Glue => {
                    glue_trim = Some(i);
                    break;
                }
                Out::BeginString => {
                    if let Some(ft) = fn_trim {
                        if i >= ft {
                            fn_trim = None;
                        }
                    }
                    break;
                }
                _ => {}
            }
        }
        let trimming = glue_trim.is_some() || fn_trim.is_some();
        if trimming {
            if is_newline(s) {
                return;
            }
            if is_nonws(s) {
                if glue_trim.is_some() {
                    // the glue has done its job
                    let mut i = self.out.len();
                    while i > 0 {
                        i -= 1;
                        match &self.out[i] {
                            Out::Glue => {
                                self.out.remove(i);
                            }
                            Out::BeginString | Out::TagBegin | Out::TagEnd => break,
                            _ => {}
                        }
                    }
                }
                if fn_trim.is_some() {
                    let frames = &mut self.threads.last_mut().unwrap().frames;
                    for f in frames.iter_mut().rev() {
                        if f.kind == FrameKind::Function {
                            f.fn_start = None;
                        } else {
                            break;
                        }
                    }
                }
            }
        } else if is_newline(s) {
            let ends_nl = matches!(self.out.last(), Some(Out::Text(t)) if is_newline(t));
            let has_content = self.out.iter().any(|o| matches!(o, Out::Text(_)));
            if ends_nl || !has_content {
                return;
            }
        }
        self.out.push(Out::Text(s.to_string()));
    }

    fn push_glue(&mut self) {
        self.events.insert("glue");
        // remove the newline before the glue, with the whitespace around it
        let mut remove_from: Option<usize> = None;
        let mut i = self.out.len();
        while i > 0 {
            i -= 1;
            match &self.out[i] {
                Out::Text(t) if is_nonws(t) => break,
                Out::Text(t) if is_newline(t) => remove_from = Some(i),
                Out::Text(_) => {}
                Out::BeginString | Out::TagBegin | Out::TagEnd => break,
                Out::Glue => {}
            }
        }
        if let Some(from) = remove_from {
            let mut k = from;
            while k < self.out.len() {
                if matches!(self.out[k], Out::Text(_)) {
                    self.out.remove(k);
                } else {
                    k += 1;
                }
            }
        }
        self.out.push(Out::Glue);
    }

    fn trim_function_end(&mut self) {
        let start = self.threads.last().unwrap().frames.last().unwrap().fn_start.unwrap_or(0);
        let mut i = self.out.len();
        while i > start {
            i -= 1;
            match &self.out[i] {
                Out::Text(t) => {
                    if is_newline(t) || is_inline_ws(t) {
                        self.out.remove(i);
                    } else {
                        break;
                    }
                }
                // markers are stepped over; the text of a tag is text and ends the trimming
                Out::BeginString | Out::TagBegin | Out::TagEnd | Out::Glue => {}
            }
        }
    }

    /// text and tags of the stream, split into lines
    fn read_lines(&self) -> (Vec<RLine>, String, Vec<String>) {
        // returns complete lines, plus the unfinished rest (text, tags)
        let mut lines = vec![];
        let mut text = String::new();
        let mut tags: Vec<String> = vec![];
        let mut in_tag = false;
        let mut cur_tag = String::new();
        for o in &self.out {
            match o {
                Out::Text(t) => {
                    if in_tag {
                        cur_tag.push_str(t);
                    } else if is_newline(t) {
                        text.push('\n');
                        lines.push(RLine { text: clean_ws(&text), tags: std::mem::take(&mut tags) });
                        text.clear();
                    } else {
                        text.push_str(t);
                    }
                }
                Out::TagBegin => {
                    in_tag = true;
                    cur_tag.clear();
                }
                Out::TagEnd => {
                    in_tag = false;
                    tags.push(clean_ws(&cur_tag));
                }
                Out::Glue | Out::BeginString => {}
            }
        }
        (lines, clean_ws(&text), tags)
    }

    // ---------------------------------------------------------------- variables

    fn lookup(&mut self, name: &str) -> R<Val> {
        let v = {
            let f = self.threads.last().unwrap().frames.last().unwrap();
            f.temps.get(name).cloned()
        };
        let v = match v {
            Some(v) => v,
            None => match self.globals.get(name) {
                Some(v) => v.clone(),
                // a temporary whose declaration was jumped over reads as 0 (with a warning)
                None => Val::I(0),
            },
        };
        self.deref(v)
    }

    fn deref(&self, v: Val) -> R<Val> {
        match v {
            Val::Ref(n, 0) => self.globals.get(&n).cloned().ok_or(format!("dangling ref {n}")),
            Val::Ref(n, fi) => {
                let f = &self.threads.last().unwrap().frames[fi - 1];
                let inner = f.temps.get(&n).cloned().ok_or(format!("dangling ref {n}"))?;
                self.deref(inner)
            }
            v => Ok(v),
        }
    }

    fn assign(&mut self, name: &str, v: Val, decl: bool) -> R<()> {
        let nframes = self.threads.last().unwrap().frames.len();
        if decl {
            self.frame().temps.insert(name.to_string(), v);
            return Ok(());
        }
        // follow references
        let mut target: (String, usize) = {
            let f = self.threads.last().unwrap().frames.last().unwrap();
            if f.temps.contains_key(name) {
                (name.to_string(), nframes)
            } else {
                (name.to_string(), 0)
            }
        };
        loop {
            let cur = if target.1 == 0 {
                self.globals.get(&target.0).cloned()
            } else {
                self.threads.last().unwrap().frames[target.1 - 1].temps.get(&target.0).cloned()
            };
            match cur {
                Some(Val::Ref(n, fi)) => target = (n, fi),
                Some(_) => break,
                None => return Err(format!("assignment to unknown variable {}", target.0)),
            }
        }
        if target.1 == 0 {
            self.globals.insert(target.0, v);
        } else {
            self.threads.last_mut().unwrap().frames[target.1 - 1].temps.insert(target.0, v);
        }
        Ok(())
    }

    // ---------------------------------------------------------------- expressions

    fn as_int(v: &Val) -> R<i32> {
        match v {
            Val::I(i) => Ok(*i),
            Val::B(b) => Ok(*b as i32),
            o => Err(format!("not a number: {o:?}")),
        }
    }

    fn eval(&mut self, e: &Expr) -> R<Val> {
        if self.fuel == 0 {
            return Err(FUEL_MSG.into());
        }
        self.fuel -= 1;
        Ok(match e {
            Expr::Lit(Lit::Int(i)) => Val::I(*i),
            Expr::Lit(Lit::Bool(b)) => Val::B(*b),
            Expr::Lit(Lit::Str(s)) => Val::S(s.clone()),
            Expr::Lit(Lit::Float8(_)) => return Err("float outside the model".into()),
            Expr::Var(n) => self.lookup(n)?,
            Expr::ReadCount(p) => {
                self.events.insert("read_count");
                Val::I(self.visit_count(p))
            }
            Expr::TurnsSince(p) => match { self.events.insert("turns_since"); 0 } {
                _ => match self.last_turn.get(p) {
                Some(t) => Val::I(self.turn - t),
                None => Val::I(-1),
            }},
            Expr::ChoiceCount => Val::I(self.pending.len() as i32),
            Expr::Turns => Val::I(self.turn + 1),
            Expr::Random(..) => return Err("RANDOM outside the model".into()),
            Expr::DivertTarget(t) => Val::D(t.clone()),
            Expr::ListLit(_) | Expr::ListItem(_) => return Err("list outside the model".into()),
            Expr::Un(op, a) => {
                let v = self.eval(a)?;
                match *op {
                    "-" => Val::I(Self::as_int(&v)?.wrapping_neg()),
                    "not" => match v {
                        Val::B(b) => Val::B(!b),
                        Val::I(i) => Val::B(i == 0),
                        o => return Err(format!("not of {o:?}")),
                    },
                    o => return Err(format!("unary {o}")),
                }
            }
            Expr::Bin(op, a, b) => {
                let x = self.eval(a)?;
                let y = self.eval(b)?;
                bin(op, x, y)?
            }
            Expr::Call(f, args) => match f.as_str() {
                "MIN" | "MAX" => {
                    let x = Self::as_int(&self.eval(&args[0])?)?;
                    let y = Self::as_int(&self.eval(&args[1])?)?;
                    Val::I(if f == "MIN" { x.min(y) } else { x.max(y) })
                }
                _ => self.call_function(f, args)?,
            },
        })
    }

    fn call_function(&mut self, f: &str, args: &[Expr]) -> R<Val> {
        let info = self.lw.funcs.get(f).ok_or(format!("unknown function {f}"))?.clone();
        let nframes = self.threads.last().unwrap().frames.len();
        let mut temps = BTreeMap::new();
        for (i, (pname, is_ref)) in info.params.iter().enumerate() {
            let a = args.get(i).ok_or("too few arguments")?;
            let v = if *is_ref {
                match a {
                    Expr::Var(n) => {
                        let cur = self.threads.last().unwrap().frames.last().unwrap();
                        match cur.temps.get(n) {
                            // passing on a reference keeps pointing at the original
                            Some(Val::Ref(rn, fi)) => Val::Ref(rn.clone(), *fi),
                            Some(_) => Val::Ref(n.clone(), nframes),
                            None => Val::Ref(n.clone(), 0),
                        }
                    }
                    _ => return Err("ref argument is not a variable".into()),
                }
            } else {
                self.eval(a)?
            };
            temps.insert(pname.clone(), v);
        }
        // entering the function counts as a visit when called from outside it
        let from = self.threads.last().unwrap().frames.last().unwrap().pos;
        let start = self.out.len();
        self.thread().frames.push(Frame {
            kind: FrameKind::Function,
            pos: info.pos,
            temps,
            fn_start: Some(start),
        });
        self.count_jump(Some(from), info.pos);
        let depth = self.threads.last().unwrap().frames.len();
        // run until this frame returns
        let out_before = self.out.len();
        let ret = loop {
            match self.step()? {
                Flow::Returned(v) if self.threads.last().unwrap().frames.len() < depth => break v,
                Flow::Returned(_) => return Err("return depth mismatch".into()),
                Flow::Next => {}
                Flow::Stopped => return Err("flow stopped inside a function".into()),
            }
        };
        if self.out.len() > out_before {
            self.events.insert("function_text");
        }
        Ok(ret)
    }

    // ---------------------------------------------------------------- inline content

    fn content(&mut self, v: &[LI]) -> R<()> {
        for i in v {
            match i {
                LI::Text(t) => self.push_text(t),
                LI::Glue => self.push_glue(),
                LI::Expr(e) => {
                    let v = self.eval(e)?;
                    let s = v.print();
                    self.push_text(&s);
                }
                LI::Cond(c, a, b) => {
                    if self.eval(c)?.truthy()? {
                        self.content(a)?;
                    } else {
                        self.content(b)?;
                    }
                }
                LI::Seq(id, kind, alts) => {
                    self.events.insert("sequence");
                    let n = *self.seq.get(id).unwrap_or(&0);
                    self.seq.insert(*id, n + 1);
                    let len = alts.len() as i32;
                    let idx = match kind {
                        SeqKind::Stopping => Some(n.min(len - 1)),
                        SeqKind::Cycle => Some(n % len),
                        SeqKind::Once => {
                            if n < len {
                                Some(n)
                            } else {
                                None
                            }
                        }
                        SeqKind::Shuffle => return Err("shuffle outside the model".into()),
                    };
                    if let Some(k) = idx {
                        self.content(&alts[k as usize])?;
                    }
                }
            }
        }
        Ok(())
    }

    /// evaluate content as a string (choice text); tags raised meanwhile belong to the choice
    fn content_string(&mut self, v: &[LI]) -> R<(String, Vec<String>)> {
        self.out.push(Out::BeginString);
        self.in_string += 1;
        let r = self.content(v);
        self.in_string -= 1;
        let mut s = String::new();
        let mut tags = vec![];
        let mut k = self.out.len();
        while k > 0 {
            k -= 1;
            if self.out[k] == Out::BeginString {
                break;
            }
        }
        let mut in_tag = false;
        let mut cur = String::new();
        for o in &self.out[k + 1..] {
            match o {
                Out::Text(t) => {
                    if in_tag {
                        cur.push_str(t);
                    } else {
                        s.push_str(t);
                    }
                }
                Out::TagBegin => {
                    in_tag = true;
                    cur.clear();
                }
                Out::TagEnd => {
                    in_tag = false;
                    tags.push(clean_ws(&cur));
                }
                _ => {}
            }
        }
        self.out.truncate(k);
        tags.append(&mut self.string_tags);
        r?;
        Ok((s, tags))
    }

    // ---------------------------------------------------------------- counting

    fn count_region(&mut self, name: &str) {
        *self.visits.entry(name.to_string()).or_insert(0) += 1;
        self.last_turn.insert(name.to_string(), self.turn);
    }

    /// flow moves by a divert-like jump from `from` to `to`
    fn count_jump(&mut self, from: Option<usize>, to: usize) {
        let names: Vec<String> = self
            .lw
            .regions
            .iter()
            .filter(|r| r.start <= to && to < r.end)
            .filter(|r| {
                if r.start_only {
                    to == r.start
                } else {
                    match from {
                        Some(f) => !(r.start <= f && f < r.end),
                        None => true,
                    }
                }
            })
            .map(|r| r.name.clone())
            .collect();
        for n in names {
            self.count_region(&n);
        }
    }

    /// flow advances sequentially into `to`
    fn count_advance(&mut self, to: usize) {
        let names: Vec<String> = self
            .lw
            .regions
            .iter()
            .filter(|r| r.start == to)
            .map(|r| r.name.clone())
            .collect();
        for n in names {
            self.count_region(&n);
        }
    }
}

fn bin(op: &str, x: Val, y: Val) -> R<Val> {
    use Val::*;
    // strings: + and comparisons
    if let (S(a), S(b)) = (&x, &y) {
        return Ok(match op {
            "+" => S(format!("{a}{b}")),
            "==" => B(a == b),
            "!=" => B(a != b),
            o => return Err(format!("string op {o}")),
        });
    }
    if matches!(x, S(_)) || matches!(y, S(_)) {
        // the other operand is coerced to a string
        let a = x.print();
        let b = y.print();
        return Ok(match op {
            "+" => S(format!("{a}{b}")),
            "==" => B(a == b),
            "!=" => B(a != b),
            o => return Err(format!("string op {o}")),
        });
    }
    let a = match &x {
        I(i) => *i,
        B(b) => *b as i32,
        o => return Err(format!("operand {o:?}")),
    };
    let b = match &y {
        I(i) => *i,
        B(b) => *b as i32,
        o => return Err(format!("operand {o:?}")),
    };
    Ok(match op {
        "+" => I(a.wrapping_add(b)),
        "-" => I(a.wrapping_sub(b)),
        "*" => I(a.wrapping_mul(b)),
        "/" => {
            if b == 0 {
                return Err("division by zero".into());
            }
            I(a.wrapping_div(b))
        }
        "%" => {
            if b == 0 {
                return Err("division by zero".into());
            }
            I(a.wrapping_rem(b))
        }
        "==" => B(a == b),
        "!=" => B(a != b),
        "<" => B(a < b),
        ">" => B(a > b),
        "<=" => B(a <= b),
        ">=" => B(a >= b),
        "and" | "&&" => B(a != 0 && b != 0),
        "or" | "||" => B(a != 0 || b != 0),
        o => return Err(format!("operator {o}")),
    })
}

enum Flow {
    Next,
    Returned(Val),
    Stopped,
}

impl<'a> Machine<'a> {
    fn set_pos(&mut self, p: usize) {
        self.frame().pos = p;
    }

    fn entry_of(&self, target: &str) -> R<usize> {
        self.lw.entry.get(target).copied().ok_or(format!("unknown divert target {target}"))
    }

    fn bind_params(&mut self, target: &str, args: &[Expr]) -> R<BTreeMap<String, Val>> {
        let mut m = BTreeMap::new();
        if let Some(ps) = self.lw.knot_params.get(target) {
            for (i, p) in ps.iter().enumerate() {
                let a = args.get(i).ok_or(format!("missing argument for {target}"))?;
                let v = self.eval(a)?;
                m.insert(p.clone(), v);
            }
        }
        Ok(m)
    }

    fn pop_thread_or_stop(&mut self) -> Flow {
        if self.threads.len() > 1 {
            self.threads.pop();
            Flow::Next
        } else {
            Flow::Stopped
        }
    }

    fn step(&mut self) -> R<Flow> {
        if self.fuel == 0 {
            return Err(FUEL_MSG.into());
        }
        self.fuel -= 1;
        let pos = self.frame().pos;
        let op = self.lw.ops.get(pos).cloned().ok_or("position past the end")?;
        match op {
            Op::Content(v) => {
                self.content(&v)?;
                self.set_pos(pos + 1);
            }
            Op::Tag(t) if self.in_string > 0 => {
                // a tag raised while choice text is evaluated belongs to the choice
                self.string_tags.push(clean_ws(&t));
                self.set_pos(pos + 1);
            }
            Op::Tag(t) => {
                self.out.push(Out::TagBegin);
                self.out.push(Out::Text(t));
                self.out.push(Out::TagEnd);
                self.set_pos(pos + 1);
            }
            Op::Newline => {
                self.push_text("\n");
                self.set_pos(pos + 1);
            }
            Op::Assign { name, expr, decl } => {
                let v = self.eval(&expr)?;
                if v == Val::Void {
                    return Err("assigning the result of a function that returns nothing".into());
                }
                self.assign(&name, v, decl)?;
                self.set_pos(pos + 1);
            }
            Op::AssignOp { name, op, expr } => {
                let cur = self.lookup(&name)?;
                let v = self.eval(&expr)?;
                let r = bin(if op == "+=" { "+" } else { "-" }, cur, v)?;
                self.assign(&name, r, false)?;
                self.set_pos(pos + 1);
            }
            Op::CallStmt(f, args) => {
                self.call_function(&f, &args)?;
                self.set_pos(pos + 1);
            }
            Op::Jump(t) => self.set_pos(t),
            Op::SeqSwitch { id, kind, targets, end } => {
                self.events.insert("sequence");
                let n = *self.seq.get(&id).unwrap_or(&0);
                self.seq.insert(id, n + 1);
                let len = targets.len() as i32;
                let idx = match kind {
                    SeqKind::Stopping => Some(n.min(len - 1)),
                    SeqKind::Cycle => Some(n % len),
                    SeqKind::Once => {
                        if n < len {
                            Some(n)
                        } else {
                            None
                        }
                    }
                    SeqKind::Shuffle => return Err("shuffle outside the model".into()),
                };
                match idx {
                    Some(k) => self.set_pos(targets[k as usize]),
                    None => self.set_pos(end),
                }
            }
            Op::JumpIfFalse(c, t) => {
                if self.eval(&c)?.truthy()? {
                    self.set_pos(pos + 1);
                } else {
                    self.set_pos(t);
                }
            }
            Op::Goto(t) => {
                self.set_pos(t);
                self.count_jump(Some(pos), t);
            }
            Op::Divert(target, args) => {
                // a divert through a variable goes where the variable's value points
                let target = match self.globals.get(&target) {
                    Some(Val::D(t)) => {
                        self.events.insert("var_divert");
                        t.clone()
                    }
                    Some(_) => return Err(format!("tried to divert through the variable {target}, which holds no divert target")),
                    None => target,
                };
                let t = self.entry_of(&target)?;
                let temps = self.bind_params(&target, &args)?;
                for (k, v) in temps {
                    self.frame().temps.insert(k, v);
                }
                self.set_pos(t);
                self.count_jump(Some(pos), t);
            }
            Op::Tunnel(target, args) => {
                self.events.insert("tunnel");
                let t = self.entry_of(&target)?;
                let temps = self.bind_params(&target, &args)?;
                self.set_pos(pos + 1);
                self.thread().frames.push(Frame { kind: FrameKind::Tunnel, pos: t, temps, fn_start: None });
                self.count_jump(Some(pos), t);
            }
            Op::Thread(target, args) => {
                self.events.insert("thread");
                let t = self.entry_of(&target)?;
                // arguments are evaluated by the thread that forks; the parameters are
                // temporaries of the forked copy only
                let temps = self.bind_params(&target, &args)?;
                if !temps.is_empty() {
                    self.events.insert("thread_args");
                }
                self.set_pos(pos + 1);
                let mut fork = self.threads.last().unwrap().clone();
                fork.frames.last_mut().unwrap().pos = t;
                for (k, v) in temps {
                    fork.frames.last_mut().unwrap().temps.insert(k, v);
                }
                self.threads.push(fork);
                self.count_jump(Some(pos), t);
            }
            Op::TunnelReturn => {
                let top = self.threads.last().unwrap().frames.last().unwrap().kind.clone();
                if top != FrameKind::Tunnel {
                    return Err("found ->-> but there is no tunnel to return from".into());
                }
                self.thread().frames.pop();
            }
            Op::TunnelOnwards(target, args) => {
                // the arguments are evaluated inside the tunnel, then the tunnel's frame goes
                // and the flow continues at the target as after a plain divert
                self.events.insert("tunnel_onwards");
                let top = self.threads.last().unwrap().frames.last().unwrap().kind.clone();
                if top != FrameKind::Tunnel {
                    return Err("found ->-> but there is no tunnel to return from".into());
                }
                let t = self.entry_of(&target)?;
                let temps = self.bind_params(&target, &args)?;
                self.thread().frames.pop();
                for (k, v) in temps {
                    self.frame().temps.insert(k, v);
                }
                self.set_pos(t);
                self.count_jump(Some(pos), t);
            }
            Op::Done => {
                if self.threads.len() > 1 {
                    self.threads.pop();
                } else {
                    self.safe_exit = Some(self.out.len());
                    return Ok(Flow::Stopped);
                }
            }
            Op::End => {
                self.pending.clear();
                self.safe_exit = Some(self.out.len());
                self.alive = false;
                let t = self.threads.pop().unwrap();
                self.threads.clear();
                self.threads.push(Thread { frames: vec![t.frames[0].clone()], prev: None });
                return Ok(Flow::Stopped);
            }
            Op::Return(e) => {
                let top = self.threads.last().unwrap().frames.last().unwrap().kind.clone();
                if top != FrameKind::Function {
                    return Err("found ~ return outside a function".into());
                }
                let v = match e {
                    Some(e) => self.eval(&e)?,
                    None => Val::Void,
                };
                self.trim_function_end();
                self.thread().frames.pop();
                return Ok(Flow::Returned(v));
            }
            Op::Choice(id) => {
                self.choice_point(id, pos)?;
                self.set_pos(pos + 1);
            }
            Op::OutOfContent => {
                let top = self.threads.last().unwrap().frames.last().unwrap().kind.clone();
                if top == FrameKind::Function {
                    self.trim_function_end();
                    self.thread().frames.pop();
                    return Ok(Flow::Returned(Val::Void));
                }
                return Ok(self.pop_thread_or_stop());
            }
        }
        Ok(Flow::Next)
    }

    fn choice_point(&mut self, id: usize, pos: usize) -> R<()> {
        let c = self.lw.choices[id].clone();
        let mut tags: Vec<String> = vec![];
        let start = if c.fallback {
            String::new()
        } else {
            let (s, t) = self.content_string(&c.start)?;
            tags.extend(t);
            s
        };
        tags.extend(c.start_tags.iter().cloned());
        let only = match &c.bracket {
            Some(b) => {
                let (s, t) = self.content_string(b)?;
                tags.extend(t);
                s
            }
            None => String::new(),
        };
        let mut show = true;
        for cond in &c.conds {
            if !self.eval(cond)?.truthy()? {
                show = false;
            }
        }
        if !c.sticky && *self.chosen.get(&id).unwrap_or(&0) > 0 {
            self.events.insert("once_only_exhausted");
            show = false;
        }
        if !show {
            return Ok(());
        }
        let text = format!("{start}{only}");
        let text = text.trim_matches([' ', '\t']).to_string();
        let thread = self.threads.last().unwrap().clone();
        self.pending.push(Pending { id, text, tags, invisible: c.fallback, thread, at: pos });
        Ok(())
    }

    fn take(&mut self, p: Pending) {
        let body = self.lw.choices[p.id].body;
        self.threads = vec![p.thread];
        self.pending.clear();
        *self.chosen.entry(p.id).or_insert(0) += 1;
        self.set_pos(body);
        self.count_jump(Some(p.at), body);
    }

    pub fn visible_choices(&self) -> Vec<(String, Vec<String>)> {
        if !self.alive {
            return vec![];
        }
        self.pending.iter().filter(|p| !p.invisible).map(|p| (p.text.clone(), p.tags.clone())).collect()
    }

    /// a safe exit only covers the line it happened on: every line is delivered by a
    /// continue of its own, and each continue starts without it
    fn safe_exit_holds(&self) -> bool {
        match self.safe_exit {
            None => false,
            Some(at) => {
                // the continue that executed the exit is the one that delivers the line in
                // progress at that moment; running out of content later in that same continue
                // is covered, i.e. no further line may have been started after it
                let tail: Vec<&String> = self
                    .out
                    .iter()
                    .skip(at)
                    .filter_map(|o| match o {
                        Out::Text(t) => Some(t),
                        _ => None,
                    })
                    .collect();
                match tail.iter().position(|t| is_newline(t)) {
                    None => true,
                    Some(p) => tail[p + 1..].iter().all(|t| is_inline_ws(t)),
                }
            }
        }
    }

    /// the host evaluates an Ink function between turns: its value and the text it printed;
    /// the story's own pending output is left alone
    pub fn eval_function(&mut self, f: &str, args: &[Val]) -> R<(Val, String)> {
        let saved = std::mem::take(&mut self.out);
        let exprs: Vec<Expr> = args
            .iter()
            .map(|v| match v {
                Val::I(i) => Expr::int(*i),
                Val::B(b) => Expr::Lit(Lit::Bool(*b)),
                Val::S(s) => Expr::Lit(Lit::Str(s.clone())),
                _ => Expr::int(0),
            })
            .collect();
        let r = self.call_function(f, &exprs);
        let (lines, rest, _) = self.read_lines();
        let mut text = String::new();
        for l in lines {
            text.push_str(&l.text);
        }
        text.push_str(&rest);
        self.out = saved;
        r.map(|v| (v, text))
    }

    /// the player picks the i-th visible choice
    pub fn choose(&mut self, i: usize) -> R<()> {
        let vis: Vec<usize> = (0..self.pending.len()).filter(|k| !self.pending[*k].invisible).collect();
        let k = *vis.get(i).ok_or("choice out of range")?;
        let p = self.pending[k].clone();
        self.turn += 1;
        self.take(p);
        Ok(())
    }

    /// run until the story stops; returns the lines of this turn and why it stopped
    pub fn turn(&mut self) -> (Vec<RLine>, Stop) {
        self.out.clear();
        self.safe_exit = None;
        let mut err: Option<String> = None;
        if self.alive {
            loop {
                match self.step() {
                    Ok(Flow::Next) => {}
                    Ok(Flow::Returned(_)) => {
                        err = Some("return outside a call".into());
                        break;
                    }
                    Ok(Flow::Stopped) => {
                        if !self.alive {
                            break;
                        }
                        // a fallback choice is followed when nothing else is on offer
                        let all_invisible = !self.pending.is_empty() && self.pending.iter().all(|p| p.invisible);
                        if all_invisible {
                            self.events.insert("fallback_followed");
                            let p = self.pending[0].clone();
                            self.take(p);
                            continue;
                        }
                        break;
                    }
                    Err(e) => {
                        err = Some(e);
                        break;
                    }
                }
            }
        }
        let (mut lines, rest, rest_tags) = self.read_lines();
        if !rest.is_empty() || !rest_tags.is_empty() {
            lines.push(RLine { text: rest, tags: rest_tags });
        }
        let stop = match err {
            Some(e) if e == FUEL_MSG => Stop::Fuel,
            Some(e) => Stop::Error(e),
            None => {
                let vis = self.visible_choices();
                if !self.alive {
                    Stop::End
                } else if !vis.is_empty() {
                    Stop::Choices(vis)
                } else if self.safe_exit_holds() {
                    Stop::End
                } else {
                    Stop::Error("ran out of content".into())
                }
            }
        };
        if matches!(stop, Stop::Error(_)) {
            self.alive = false;
        }
        (lines, stop)
    }
}
