//! Counting global allocator: live bytes / live blocks per thread (a case runs on one thread).
use std::alloc::{GlobalAlloc, Layout, System};
use std::cell::Cell;

thread_local! {
    static LIVE_BYTES: Cell<isize> = const { Cell::new(0) };
    static LIVE_BLOCKS: Cell<isize> = const { Cell::new(0) };
}

pub struct Counting;

unsafe impl GlobalAlloc for Counting {
    unsafe fn alloc(&self, layout: Layout) -> *mut u8 {
        let p = unsafe { System.alloc(layout) };
        if !p.is_null() {
            let _ = LIVE_BYTES.try_with(|c| c.set(c.get() + layout.size() as isize));
            let _ = LIVE_BLOCKS.try_with(|c| c.set(c.get() + 1));
        }
        p
    }
    unsafe fn dealloc(&self, ptr: *mut u8, layout: Layout) {
        unsafe { System.dealloc(ptr, layout) };
        let _ = LIVE_BYTES.try_with(|c| c.set(c.get() - layout.size() as isize));
        let _ = LIVE_BLOCKS.try_with(|c| c.set(c.get() - 1));
    }
    unsafe fn realloc(&self, ptr: *mut u8, layout: Layout, new_size: usize) -> *mut u8 {
        let p = unsafe { System.realloc(ptr, layout, new_size) };
        if !p.is_null() {
            let _ = LIVE_BYTES.try_with(|c| c.set(c.get() + new_size as isize - layout.size() as isize));
        }
        p
    }
}

pub fn live() -> (isize, isize) {
    (LIVE_BYTES.with(|c| c.get()), LIVE_BLOCKS.with(|c| c.get()))
}
