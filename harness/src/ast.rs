//! AST of "core Ink" as produced by the generator, and its printer (canonical layout:
//! one statement per line, choice bodies indented deeper than their marker, nesting by
//! marker count and indentation, gathers at the indentation of their choices).

#[derive(Debug, Clone, PartialEq)]
pub enum Ty {
    Int,
    Bool,
    Str,
    Float,
    List,
    /// a variable holding a divert target (`VAR d = -> knot`)
    Divert,
}

#[derive(Debug, Clone, PartialEq)]
pub enum Lit {
    Int(i32),
    Bool(bool),
    Str(String),
    /// value = k / 8  (always exactly representable)
    Float8(i32),
}

#[derive(Debug, Clone, PartialEq)]
pub enum Expr {
    Lit(Lit),
    Var(String),
    /// read count of a knot / stitch / label: `k1`, `k1.s0`, `k1.l3`
    ReadCount(String),
    TurnsSince(String),
    ChoiceCount,
    Turns,
    Random(Box<Expr>, Box<Expr>),
    /// function call (ink function, external, or builtin like MIN, LIST_COUNT)
    Call(String, Vec<Expr>),
    Un(&'static str, Box<Expr>),
    Bin(&'static str, Box<Expr>, Box<Expr>),
    /// list literal: `(A.a, B.b)`; empty = `()`
    ListLit(Vec<String>),
    /// a single list item `A.a`
    ListItem(String),
    /// divert target value `-> k1`
    DivertTarget(String),
}

impl Expr {
    pub fn int(i: i32) -> Expr {
        Expr::Lit(Lit::Int(i))
    }
    pub fn print(&self) -> String {
        match self {
            Expr::Lit(Lit::Int(i)) => format!("{i}"),
            Expr::Lit(Lit::Bool(b)) => format!("{b}"),
            Expr::Lit(Lit::Str(s)) => format!("\"{s}\""),
            Expr::Lit(Lit::Float8(k)) => {
                let v = *k as f64 / 8.0;
                let s = format!("{v}");
                if s.contains('.') { s } else { format!("{s}.0") }
            }
            Expr::Var(n) => n.clone(),
            Expr::ReadCount(p) => p.clone(),
            Expr::TurnsSince(p) => format!("TURNS_SINCE(-> {p})"),
            Expr::ChoiceCount => "CHOICE_COUNT()".into(),
            Expr::Turns => "TURNS()".into(),
            Expr::Random(a, b) => format!("RANDOM({}, {})", a.print(), b.print()),
            Expr::Call(f, args) => format!(
                "{f}({})",
                args.iter().map(|a| a.print()).collect::<Vec<_>>().join(", ")
            ),
            Expr::Un(op, e) => {
                if *op == "not" {
                    format!("(not {})", e.print_atom())
                } else {
                    format!("({op}{})", e.print_atom())
                }
            }
            Expr::Bin(op, a, b) => format!("({} {op} {})", a.print_atom(), b.print_atom()),
            Expr::ListLit(items) => format!("({})", items.join(", ")),
            Expr::ListItem(i) => i.clone(),
            Expr::DivertTarget(t) => format!("-> {t}"),
        }
    }
    /// operands are printed so that a negative literal never directly follows an operator
    fn print_atom(&self) -> String {
        match self {
            Expr::Lit(Lit::Int(i)) if *i < 0 => format!("({i})"),
            Expr::Lit(Lit::Float8(k)) if *k < 0 => format!("({})", self.print()),
            _ => self.print(),
        }
    }
    /// top-level print without the outer parentheses of a binary expression
    pub fn print_top(&self) -> String {
        match self {
            Expr::Bin(op, a, b) => format!("{} {op} {}", a.print_atom(), b.print_atom()),
            Expr::Un(op, e) if *op == "not" => format!("not {}", e.print_atom()),
            _ => self.print(),
        }
    }
    pub fn walk(&self, f: &mut dyn FnMut(&Expr)) {
        f(self);
        match self {
            Expr::Random(a, b) | Expr::Bin(_, a, b) => {
                a.walk(f);
                b.walk(f);
            }
            Expr::Un(_, a) => a.walk(f),
            Expr::Call(_, args) => {
                for a in args {
                    a.walk(f)
                }
            }
            _ => {}
        }
    }
}

#[derive(Debug, Clone, PartialEq)]
pub enum SeqKind {
    Stopping,
    Cycle,
    Once,
    Shuffle,
}

#[derive(Debug, Clone, PartialEq)]
pub enum Inline {
    Text(String),
    Expr(Expr),
    Cond(Expr, Vec<Inline>, Vec<Inline>),
    Seq(SeqKind, Vec<Vec<Inline>>),
    Glue,
}

pub fn print_inlines(v: &[Inline]) -> String {
    let mut s = String::new();
    for i in v {
        match i {
            Inline::Text(t) => s.push_str(t),
            Inline::Expr(e) => {
                s.push('{');
                s.push_str(&e.print_top());
                s.push('}');
            }
            Inline::Cond(c, a, b) => {
                s.push('{');
                s.push_str(&c.print_top());
                s.push(':');
                s.push_str(&print_inlines(a));
                if !b.is_empty() {
                    s.push('|');
                    s.push_str(&print_inlines(b));
                }
                s.push('}');
            }
            Inline::Seq(k, alts) => {
                s.push('{');
                s.push_str(match k {
                    SeqKind::Stopping => "",
                    SeqKind::Cycle => "&",
                    SeqKind::Once => "!",
                    SeqKind::Shuffle => "~",
                });
                s.push_str(
                    &alts
                        .iter()
                        .map(|a| print_inlines(a))
                        .collect::<Vec<_>>()
                        .join("|"),
                );
                s.push('}');
            }
            Inline::Glue => s.push_str("<>"),
        }
    }
    s
}

#[derive(Debug, Clone, PartialEq)]
pub struct TextLine {
    pub parts: Vec<Inline>,
    pub tags: Vec<String>,
    /// inline divert at the end of the line: `text -> target`
    pub divert: Option<String>,
}

impl TextLine {
    pub fn print(&self) -> String {
        let mut s = print_inlines(&self.parts);
        for t in &self.tags {
            s.push_str(" # ");
            s.push_str(t);
        }
        if let Some(d) = &self.divert {
            s.push_str(" -> ");
            s.push_str(d);
        }
        s
    }
}

#[derive(Debug, Clone, PartialEq)]
pub enum Stmt {
    Line(TextLine),
    /// `~ temp x = e`
    TempDecl(String, Expr),
    /// `~ x = e`
    Assign(String, Expr),
    /// `~ x += e` / `~ x -= e`
    AssignOp(String, &'static str, Expr),
    /// `~ f(args)`
    Call(String, Vec<Expr>),
    Divert(String, Vec<Expr>),
    /// `-> t ->`
    Tunnel(String, Vec<Expr>),
    /// `<- t`
    Thread(String, Vec<Expr>),
    TunnelReturn,
    /// `->-> target(args)`: leave the tunnel and go on to `target` instead of returning
    TunnelOnwards(String, Vec<Expr>),
    Done,
    End,
    Return(Option<Expr>),
    /// `{ - c1: block - c2: block - else: block }`
    If(Vec<(Expr, Vec<Stmt>)>, Option<Vec<Stmt>>),
    /// `{ stopping: - lines - lines }` (also cycle, once)
    SeqBlock(SeqKind, Vec<Vec<TextLine>>),
    /// `{ var: - 0: block - 1: block - else: block }`
    Switch(String, Vec<(i32, Vec<Stmt>)>, Option<Vec<Stmt>>),
}

#[derive(Debug, Clone, PartialEq)]
pub struct Choice {
    pub sticky: bool,
    pub label: Option<String>,
    pub conds: Vec<Expr>,
    /// fallback: `* ->` (no text)
    pub fallback: bool,
    pub start: Vec<Inline>,
    pub bracket: Option<Vec<Inline>>,
    pub end: Vec<Inline>,
    pub tags: Vec<String>,
    /// divert on the choice line itself
    pub divert: Option<String>,
    pub body: Block,
}

#[derive(Debug, Clone, PartialEq)]
pub struct Gather {
    pub label: Option<String>,
    pub line: Option<TextLine>,
}

#[derive(Debug, Clone, PartialEq)]
pub struct ChoiceGroup {
    pub choices: Vec<Choice>,
    /// the gather that collects the loose ends, and what follows it at this level
    pub gather: Option<(Gather, Box<Block>)>,
}

#[derive(Debug, Clone, PartialEq, Default)]
pub struct Block {
    pub stmts: Vec<Stmt>,
    pub group: Option<ChoiceGroup>,
}

#[derive(Debug, Clone, PartialEq)]
pub enum KnotKind {
    Plain,
    Tunnel,
    ThreadTarget,
}

#[derive(Debug, Clone, PartialEq)]
pub struct Stitch {
    pub name: String,
    pub body: Block,
}

#[derive(Debug, Clone, PartialEq)]
pub struct Knot {
    pub name: String,
    pub kind: KnotKind,
    pub params: Vec<String>,
    pub body: Block,
    pub stitches: Vec<Stitch>,
}

#[derive(Debug, Clone, PartialEq)]
pub struct Function {
    pub name: String,
    pub params: Vec<String>,
    pub body: Vec<Stmt>,
    /// declared return type (None: prints text / no value)
    pub ret: Option<Ty>,
    /// assigns globals?
    pub pure_fn: bool,
}

#[derive(Debug, Clone, PartialEq)]
pub struct Global {
    pub name: String,
    pub ty: Ty,
    pub init: Expr,
}

#[derive(Debug, Clone, PartialEq)]
pub struct ListDecl {
    pub name: String,
    /// (item, explicit value, initially selected)
    pub items: Vec<(String, i32, bool)>,
}

#[derive(Debug, Clone, PartialEq)]
pub struct External {
    pub name: String,
    pub nargs: usize,
    /// an ink fallback function with the same name exists
    pub fallback: bool,
}

#[derive(Debug, Clone, PartialEq, Default)]
pub struct Program {
    pub globals: Vec<Global>,
    pub lists: Vec<ListDecl>,
    pub externals: Vec<External>,
    pub root: Block,
    pub knots: Vec<Knot>,
    pub functions: Vec<Function>,
}

fn ind(n: usize) -> String {
    "    ".repeat(n)
}

fn print_stmts(out: &mut String, stmts: &[Stmt], indent: usize) {
    for s in stmts {
        print_stmt(out, s, indent);
    }
}

fn args_str(args: &[Expr]) -> String {
    if args.is_empty() {
        String::new()
    } else {
        format!(
            "({})",
            args.iter().map(|a| a.print()).collect::<Vec<_>>().join(", ")
        )
    }
}

fn print_stmt(out: &mut String, s: &Stmt, indent: usize) {
    let i = ind(indent);
    match s {
        Stmt::Line(l) => out.push_str(&format!("{i}{}\n", l.print())),
        Stmt::TempDecl(n, e) => out.push_str(&format!("{i}~ temp {n} = {}\n", e.print_top())),
        Stmt::Assign(n, e) => out.push_str(&format!("{i}~ {n} = {}\n", e.print_top())),
        Stmt::AssignOp(n, op, e) => out.push_str(&format!("{i}~ {n} {op} {}\n", e.print_top())),
        Stmt::Call(f, args) => out.push_str(&format!(
            "{i}~ {f}({})\n",
            args.iter().map(|a| a.print()).collect::<Vec<_>>().join(", ")
        )),
        Stmt::Divert(t, args) => out.push_str(&format!("{i}-> {t}{}\n", args_str(args))),
        Stmt::Tunnel(t, args) => out.push_str(&format!("{i}-> {t}{} ->\n", args_str(args))),
        Stmt::Thread(t, args) => out.push_str(&format!("{i}<- {t}{}\n", args_str(args))),
        Stmt::TunnelReturn => out.push_str(&format!("{i}->->\n")),
        Stmt::TunnelOnwards(t, args) => out.push_str(&format!("{i}->-> {t}{}\n", args_str(args))),
        Stmt::Done => out.push_str(&format!("{i}-> DONE\n")),
        Stmt::End => out.push_str(&format!("{i}-> END\n")),
        Stmt::Return(None) => out.push_str(&format!("{i}~ return\n")),
        Stmt::Return(Some(e)) => out.push_str(&format!("{i}~ return {}\n", e.print_top())),
        Stmt::Switch(var, cases, els) => {
            out.push_str(&format!("{i}{{ {var}:\n"));
            for (v, b) in cases {
                out.push_str(&format!("{i}- {v}:\n"));
                print_stmts(out, b, indent + 1);
            }
            if let Some(e) = els {
                out.push_str(&format!("{i}- else:\n"));
                print_stmts(out, e, indent + 1);
            }
            out.push_str(&format!("{i}}}\n"));
        }
        Stmt::SeqBlock(kind, branches) => {
            let word = match kind {
                SeqKind::Stopping => "stopping",
                SeqKind::Cycle => "cycle",
                SeqKind::Once => "once",
                SeqKind::Shuffle => "shuffle",
            };
            out.push_str(&format!("{i}{{ {word}:\n"));
            for lines in branches {
                for (k, l) in lines.iter().enumerate() {
                    if k == 0 {
                        out.push_str(&format!("{i}    - {}\n", l.print()));
                    } else {
                        out.push_str(&format!("{i}      {}\n", l.print()));
                    }
                }
            }
            out.push_str(&format!("{i}}}\n"));
        }
        Stmt::If(branches, els) => {
            if branches.len() == 1 && els.is_none() {
                out.push_str(&format!("{i}{{ {}:\n", branches[0].0.print_top()));
                print_stmts(out, &branches[0].1, indent + 1);
                out.push_str(&format!("{i}}}\n"));
            } else if branches.len() == 1 {
                out.push_str(&format!("{i}{{ {}:\n", branches[0].0.print_top()));
                print_stmts(out, &branches[0].1, indent + 1);
                out.push_str(&format!("{i}- else:\n"));
                print_stmts(out, els.as_ref().unwrap(), indent + 1);
                out.push_str(&format!("{i}}}\n"));
            } else {
                out.push_str(&format!("{i}{{\n"));
                for (c, b) in branches {
                    out.push_str(&format!("{i}- {}:\n", c.print_top()));
                    print_stmts(out, b, indent + 1);
                }
                if let Some(e) = els {
                    out.push_str(&format!("{i}- else:\n"));
                    print_stmts(out, e, indent + 1);
                }
                out.push_str(&format!("{i}}}\n"));
            }
        }
    }
}

fn print_block(out: &mut String, b: &Block, level: usize, indent: usize) {
    print_stmts(out, &b.stmts, indent);
    if let Some(g) = &b.group {
        let lvl = level + 1;
        for c in &g.choices {
            let mark = if c.sticky { "+" } else { "*" };
            let marks = vec![mark; lvl].join(" ");
            let mut line = format!("{}{marks} ", ind(indent));
            if let Some(l) = &c.label {
                line.push_str(&format!("({l}) "));
            }
            for cond in &c.conds {
                line.push_str(&format!("{{{}}} ", cond.print_top()));
            }
            if c.fallback {
                line.push_str("->");
                if let Some(d) = &c.divert {
                    line.push(' ');
                    line.push_str(d);
                }
            } else {
                line.push_str(&print_inlines(&c.start));
                if let Some(b) = &c.bracket {
                    line.push('[');
                    line.push_str(&print_inlines(b));
                    line.push(']');
                }
                line.push_str(&print_inlines(&c.end));
                for t in &c.tags {
                    line.push_str(" # ");
                    line.push_str(t);
                }
                if let Some(d) = &c.divert {
                    line.push_str(" -> ");
                    line.push_str(d);
                }
            }
            out.push_str(line.trim_end());
            out.push('\n');
            print_block(out, &c.body, lvl, indent + 1);
        }
        if let Some((ga, rest)) = &g.gather {
            let marks = vec!["-"; lvl].join(" ");
            let mut line = format!("{}{marks}", ind(indent));
            if let Some(l) = &ga.label {
                line.push_str(&format!(" ({l})"));
            }
            if let Some(t) = &ga.line {
                line.push(' ');
                line.push_str(&t.print());
            }
            out.push_str(&line);
            out.push('\n');
            print_block(out, rest, level, indent);
        }
    }
}

impl Program {
    pub fn to_ink(&self) -> String {
        let mut out = String::new();
        for l in &self.lists {
            let items: Vec<String> = l
                .items
                .iter()
                .map(|(n, v, sel)| {
                    if *sel {
                        format!("({n} = {v})")
                    } else {
                        format!("{n} = {v}")
                    }
                })
                .collect();
            out.push_str(&format!("LIST {} = {}\n", l.name, items.join(", ")));
        }
        for g in &self.globals {
            out.push_str(&format!("VAR {} = {}\n", g.name, g.init.print_top()));
        }
        for e in &self.externals {
            let params: Vec<String> = (0..e.nargs).map(|i| format!("a{i}")).collect();
            out.push_str(&format!("EXTERNAL {}({})\n", e.name, params.join(", ")));
        }
        print_block(&mut out, &self.root, 0, 0);
        for k in &self.knots {
            let params = if k.params.is_empty() {
                String::new()
            } else {
                format!("({})", k.params.join(", "))
            };
            out.push_str(&format!("=== {}{} ===\n", k.name, params));
            print_block(&mut out, &k.body, 0, 0);
            for s in &k.stitches {
                out.push_str(&format!("= {}\n", s.name));
                print_block(&mut out, &s.body, 0, 0);
            }
        }
        for f in &self.functions {
            out.push_str(&format!(
                "=== function {}({}) ===\n",
                f.name,
                f.params.join(", ")
            ));
            print_stmts(&mut out, &f.body, 0);
        }
        out
    }

    /// feature classes of this program (for the evidence histogram)
    pub fn features(&self) -> Vec<&'static str> {
        let mut f = std::collections::BTreeSet::new();
        if self.globals.iter().any(|g| g.ty == Ty::Divert) {
            f.insert("divert_variable");
        }
        fn block(b: &Block, depth: usize, f: &mut std::collections::BTreeSet<&'static str>) {
            stmts(&b.stmts, f);
            if let Some(g) = &b.group {
                f.insert("choices");
                if depth >= 1 {
                    f.insert("nested_weave");
                }
                for c in &g.choices {
                    if c.fallback {
                        f.insert("fallback_choice");
                    }
                    if c.sticky {
                        f.insert("sticky_choice");
                    }
                    if c.label.is_some() {
                        f.insert("labelled_choice");
                    }
                    if !c.conds.is_empty() {
                        f.insert("conditional_choice");
                    }
                    if c.bracket.is_some() {
                        f.insert("bracket_choice");
                    }
                    if !c.tags.is_empty() {
                        f.insert("choice_tags");
                    }
                    block(&c.body, depth + 1, f);
                }
                if let Some((ga, rest)) = &g.gather {
                    f.insert("gather");
                    if ga.label.is_some() {
                        f.insert("labelled_gather");
                    }
                    block(rest, depth, f);
                }
            }
        }
        fn inl(v: &[Inline], f: &mut std::collections::BTreeSet<&'static str>) {
            for i in v {
                match i {
                    Inline::Glue => {
                        f.insert("glue");
                    }
                    Inline::Cond(_, a, b) => {
                        f.insert("inline_conditional");
                        inl(a, f);
                        inl(b, f);
                    }
                    Inline::Seq(k, alts) => {
                        f.insert(match k {
                            SeqKind::Stopping => "seq_stopping",
                            SeqKind::Cycle => "seq_cycle",
                            SeqKind::Once => "seq_once",
                            SeqKind::Shuffle => "seq_shuffle",
                        });
                        for a in alts {
                            inl(a, f);
                        }
                    }
                    Inline::Expr(e) => {
                        f.insert("print_expr");
                        e.walk(&mut |x| match x {
                            Expr::Call(_, _) => {
                                f.insert("call_in_text");
                            }
                            Expr::Random(_, _) => {
                                f.insert("random");
                            }
                            _ => {}
                        });
                    }
                    Inline::Text(_) => {}
                }
            }
        }
        fn stmts(v: &[Stmt], f: &mut std::collections::BTreeSet<&'static str>) {
            for s in v {
                match s {
                    Stmt::Line(l) => {
                        inl(&l.parts, f);
                        if !l.tags.is_empty() {
                            f.insert("tags");
                        }
                        if l.divert.is_some() {
                            f.insert("inline_divert");
                        }
                    }
                    Stmt::Tunnel(_, _) => {
                        f.insert("tunnel");
                    }
                    Stmt::Thread(_, a) => {
                        if !a.is_empty() {
                            f.insert("thread_args");
                        }
                        f.insert("thread");
                    }
                    Stmt::TunnelOnwards(_, _) => {
                        f.insert("tunnel_onwards");
                    }
                    Stmt::If(br, e) => {
                        f.insert("block_conditional");
                        for (_, b) in br {
                            stmts(b, f);
                        }
                        if let Some(e) = e {
                            stmts(e, f);
                        }
                    }
                    Stmt::Call(_, _) => {
                        f.insert("call_stmt");
                    }
                    Stmt::Switch(_, cases, e) => {
                        f.insert("switch_block");
                        for (_, b) in cases {
                            stmts(b, f);
                        }
                        if let Some(e) = e {
                            stmts(e, f);
                        }
                    }
                    Stmt::SeqBlock(_, br) => {
                        f.insert("block_sequence");
                        for b in br {
                            for l in b {
                                inl(&l.parts, f);
                            }
                        }
                    }
                    Stmt::TempDecl(_, _) => {
                        f.insert("temp");
                    }
                    Stmt::Assign(_, _) | Stmt::AssignOp(_, _, _) => {
                        f.insert("assign");
                    }
                    _ => {}
                }
            }
        }
        block(&self.root, 0, &mut f);
        for k in &self.knots {
            block(&k.body, 0, &mut f);
            if !k.stitches.is_empty() {
                f.insert("stitches");
            }
            for s in &k.stitches {
                block(&s.body, 0, &mut f);
            }
            if !k.params.is_empty() {
                f.insert("knot_params");
            }
        }
        for fun in &self.functions {
            f.insert("functions");
            stmts(&fun.body, &mut f);
        }
        if !self.lists.is_empty() {
            f.insert("lists");
        }
        if !self.externals.is_empty() {
            f.insert("externals");
        }
        f.into_iter().collect()
    }
}
