//! Independent static resolver over compiled story JSON (written from the format description:
//! a container is an array whose last element is null or an object holding named-only content,
//! "#f" flags and "#n" name; path components are indices, names or "^" (parent); a path
//! starting with "." is relative to the object that holds it).
use serde_json::Value as J;
use std::collections::BTreeSet;

#[derive(Debug)]
pub struct Complaint {
    pub at: String,
    pub what: String,
}

struct Node<'a> {
    v: &'a J,
    parent: Option<usize>,
    /// path text of this node
    path: String,
}

pub struct Tree<'a> {
    nodes: Vec<Node<'a>>,
    /// children lookup: (parent, key) -> node
    by_index: std::collections::HashMap<(usize, usize), usize>,
    by_name: std::collections::HashMap<(usize, String), usize>,
    content_len: Vec<usize>,
}

fn is_container(v: &J) -> bool {
    v.is_array()
}

fn join(path: &str, comp: &str) -> String {
    if path.is_empty() {
        comp.to_string()
    } else {
        format!("{path}.{comp}")
    }
}

impl<'a> Tree<'a> {
    pub fn build(root: &'a J) -> Tree<'a> {
        let mut t = Tree {
            nodes: vec![],
            by_index: Default::default(),
            by_name: Default::default(),
            content_len: vec![],
        };
        t.add(root, None, String::new());
        t
    }

    fn add(&mut self, v: &'a J, parent: Option<usize>, path: String) -> usize {
        let id = self.nodes.len();
        self.nodes.push(Node { v, parent, path: path.clone() });
        self.content_len.push(0);
        if let J::Array(a) = v {
            let n = a.len().saturating_sub(1);
            self.content_len[id] = n;
            for (i, el) in a.iter().take(n).enumerate() {
                // a named sub-container in content is addressed by its name (and by index)
                let name = el
                    .as_array()
                    .and_then(|s| s.last())
                    .and_then(|l| l.as_object())
                    .and_then(|o| o.get("#n"))
                    .and_then(|x| x.as_str())
                    .filter(|s| !s.is_empty());
                let child_path = match name {
                    Some(nm) => join(&path, nm),
                    None => join(&path, &i.to_string()),
                };
                let cid = self.add(el, Some(id), child_path);
                self.by_index.insert((id, i), cid);
                if let Some(nm) = name {
                    self.by_name.insert((id, nm.to_string()), cid);
                }
            }
            if let Some(J::Object(o)) = a.last() {
                for (k, sub) in o {
                    if k == "#f" || k == "#n" {
                        continue;
                    }
                    if sub.is_array() {
                        let cid = self.add(sub, Some(id), join(&path, k));
                        self.by_name.insert((id, k.clone()), cid);
                    }
                }
            }
        }
        id
    }

    /// resolve `path` from node `from` (the object holding the path). Ok(node) or Err(reason).
    /// `allow_end`: an index equal to the content length of its container (the position just
    /// past the last element) is accepted, as diverts may target the end of a container.
    fn resolve(&self, from: usize, path: &str, allow_end: bool) -> Result<Option<usize>, String> {
        let (mut cur, comps): (usize, Vec<&str>) = if let Some(rel) = path.strip_prefix('.') {
            // relative: start at the nearest container (the holder's parent for a leaf)
            let mut comps: Vec<&str> = rel.split('.').collect();
            let start = if is_container(self.nodes[from].v) {
                from
            } else {
                // the first component must be "^" (to the parent container)
                if comps.first() != Some(&"^") {
                    return Err("relative path of a leaf does not start with '^'".into());
                }
                comps.remove(0);
                self.nodes[from].parent.ok_or("no parent")?
            };
            (start, comps)
        } else {
            (0, path.split('.').collect())
        };
        if path.is_empty() {
            return Err("empty path".into());
        }
        let n = comps.len();
        for (i, c) in comps.iter().enumerate() {
            if c.is_empty() {
                return Err("empty path component".into());
            }
            if !is_container(self.nodes[cur].v) {
                return Err(format!("component '{c}' applied to a non-container"));
            }
            if *c == "^" {
                cur = self.nodes[cur].parent.ok_or("'^' above the root")?;
            } else if let Ok(idx) = c.parse::<usize>() {
                match self.by_index.get(&(cur, idx)) {
                    Some(id) => cur = *id,
                    None => {
                        if allow_end && i == n - 1 && idx == self.content_len[cur] {
                            return Ok(None);
                        }
                        // an all-digit *name* is also possible
                        match self.by_name.get(&(cur, c.to_string())) {
                            Some(id) => cur = *id,
                            None => return Err(format!("index {idx} out of range (container '{}' has {} elements)", self.nodes[cur].path, self.content_len[cur])),
                        }
                    }
                }
            } else {
                match self.by_name.get(&(cur, c.to_string())) {
                    Some(id) => cur = *id,
                    None => return Err(format!("no content named '{c}' in container '{}'", self.nodes[cur].path)),
                }
            }
        }
        Ok(Some(cur))
    }
}

/// Check every path-carrying token and variable name of a compiled story document.
pub fn check_document(doc: &J, declared_externals: Option<&BTreeSet<String>>) -> Vec<Complaint> {
    let mut out = vec![];
    let Some(root) = doc.get("root") else {
        out.push(Complaint { at: "".into(), what: "no root".into() });
        return out;
    };
    if !root.is_array() {
        out.push(Complaint { at: "".into(), what: "root is not a container".into() });
        return out;
    }
    let tree = Tree::build(root);
    // names
    let mut globals: BTreeSet<String> = BTreeSet::new();
    let mut list_names: BTreeSet<String> = BTreeSet::new();
    if let Some(J::Object(defs)) = doc.get("listDefs") {
        for (ln, items) in defs {
            list_names.insert(ln.clone());
            if let J::Object(o) = items {
                for it in o.keys() {
                    list_names.insert(it.clone());
                    list_names.insert(format!("{ln}.{it}"));
                }
            }
        }
    }
    for n in &tree.nodes {
        if n.path == "global decl" || n.path.starts_with("global decl.") {
            if let J::Array(a) = n.v {
                for el in a {
                    if let Some(name) = el.get("VAR=").and_then(|x| x.as_str()) {
                        globals.insert(name.to_string());
                    }
                }
            }
        }
    }
    // temps per top-level flow (first path component), root included
    let top_of = |path: &str| -> String { path.split('.').next().unwrap_or("").to_string() };
    let mut temps: std::collections::HashMap<String, BTreeSet<String>> = Default::default();
    for n in &tree.nodes {
        if let J::Array(a) = n.v {
            for el in a {
                if let Some(o) = el.as_object() {
                    if let Some(name) = o.get("temp=").and_then(|x| x.as_str()) {
                        if !o.contains_key("re") {
                            temps.entry(top_of(&n.path)).or_default().insert(name.to_string());
                        }
                    }
                }
            }
        }
    }
    let top_level_names: BTreeSet<String> = root
        .as_array()
        .and_then(|a| a.last())
        .and_then(|l| l.as_object())
        .map(|o| o.keys().filter(|k| *k != "#f" && *k != "#n").cloned().collect())
        .unwrap_or_default();
    for (id, n) in tree.nodes.iter().enumerate() {
        let J::Object(o) = n.v else { continue };
        if o.contains_key("originalChoicePath") {
            continue;
        }
        let is_var = o.get("var").and_then(|x| x.as_bool()).unwrap_or(false);
        for key in ["->", "->t->", "f()", "*", "CNT?", "^->"] {
            if let Some(p) = o.get(key).and_then(|x| x.as_str()) {
                if is_var && (key == "->" || key == "->t->" || key == "f()") {
                    // variable divert: the name must be a variable
                    let flow = top_of(&n.path);
                    let known = globals.contains(p)
                        || temps.get(&flow).map(|t| t.contains(p)).unwrap_or(false)
                        || temps.get("").map(|t| t.contains(p)).unwrap_or(false);
                    if !known {
                        out.push(Complaint { at: n.path.clone(), what: format!("variable divert through undeclared '{p}'") });
                    }
                    continue;
                }
                match tree.resolve(id, p, key == "->" || key == "^->") {
                    Ok(Some(target)) => {
                        if matches!(key, "->t->" | "f()" | "*" | "CNT?") && !is_container(tree.nodes[target].v) {
                            out.push(Complaint { at: n.path.clone(), what: format!("{key} target '{p}' is not a container") });
                        }
                    }
                    Ok(None) => {}
                    Err(e) => out.push(Complaint { at: n.path.clone(), what: format!("{key} '{p}' does not resolve: {e}") }),
                }
            }
        }
        if let Some(name) = o.get("x()").and_then(|x| x.as_str()) {
            if let Some(decl) = declared_externals {
                if !decl.contains(name) {
                    out.push(Complaint { at: n.path.clone(), what: format!("x() '{name}' is not a declared EXTERNAL") });
                }
            }
        }
        for key in ["VAR?", "VAR=", "temp="] {
            if let Some(name) = o.get(key).and_then(|x| x.as_str()) {
                if key == "temp=" && !o.contains_key("re") {
                    continue; // a declaration
                }
                if key == "VAR=" && (n.path.starts_with("global decl")) {
                    continue;
                }
                let flow = top_of(&n.path);
                let known = globals.contains(name)
                    || list_names.contains(name)
                    || temps.get(&flow).map(|t| t.contains(name)).unwrap_or(false)
                    || (key == "VAR?" && top_level_names.contains(name) && false);
                if !known {
                    out.push(Complaint { at: n.path.clone(), what: format!("{key} '{name}' names no declared variable, list item or temporary of this flow") });
                }
            }
        }
    }
    out
}

/// Path text of every container that directly holds the shuffle command ("seq").
pub fn shuffle_container_paths(doc: &J) -> Vec<String> {
    let Some(root) = doc.get("root").filter(|r| r.is_array()) else {
        return vec![];
    };
    let tree = Tree::build(root);
    tree.nodes
        .iter()
        .filter(|n| n.v.as_array().map(|a| a.iter().any(|e| e.as_str() == Some("seq"))).unwrap_or(false))
        .map(|n| n.path.clone())
        .collect()
}
