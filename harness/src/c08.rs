//! C08 — how the host slices continuation never changes the story.
use crate::common::*;
use crate::engine::*;
use crate::lockstep::*;
use crate::pgen::{Profile, Tape};
use crate::rt::*;
use bladeink::value_type::ValueType;
use serde_json::{Value as J, json};

const RULE: &str = "generated programs (look-ahead stressors emphasised: assignments, counted diverts, choices, \
function calls, threads, tunnels and glue right after a line end) with observers on all globals and bound \
externals (look-ahead-safe or unsafe), played along a generated choice path. The unsliced run finishes every \
line with one cont(); sliced runs use the virtual clock hook: a line is a sequence of continue_async calls that \
each pause after b_i interpreter steps. Schedules: pause-after-every-step; EVERY single pause position p (all \
lines pause once after p steps, p = 1..longest line); generated multi-pause schedules; lines finished either \
by further slices or by a blocking cont(). Every schedule must yield the same lines, tags, choices, errors, \
observer notifications, external calls (with lines-delivered counters), final view and canonical save as the \
unsliced run. While a slice is unfinished, get_current_text/tags and every call that carries the engine's async \
guard must return Err and must not change the outcome. Non-trivial = a schedule that paused at least once \
while the line was unfinished after a newline had already been produced in that continue (look-ahead snapshot \
alive); distinct = hash(program, path, schedule).";

fn profile() -> Profile {
    Profile {
        externals: true,
        lists: false,
        random: true,
        shuffles: true,
        ..Profile::default()
    }
}

/// Guarded calls that must be refused while a time-limited continue is unfinished.
fn probe_guarded(h: &mut Host, which: usize) -> Option<String> {
    let knot = h.meta.knots.first().cloned().unwrap_or_else(|| "x".into());
    let var = h.meta.globals.first().cloned().unwrap_or_else(|| "x".into());
    let ext = h.meta.externals.first().map(|e| e.0.clone()).unwrap_or_else(|| "zz".into());
    let ok = match which % 12 {
        0 => h.story.get_current_text().is_ok(),
        1 => h.story.get_current_tags().is_ok(),
        2 => h.story.continue_maximally().is_ok(),
        3 => h.story.choose_path_string(&knot, true, None).is_ok(),
        4 => {
            let mut out = String::new();
            h.story.evaluate_function(&knot, None, &mut out).is_ok()
        }
        5 => h.story.reset_state().is_ok(),
        6 => h.story.switch_flow("fa").is_ok(),
        7 => {
            let o = h.observers[2].clone();
            h.story.observe_variable(&var, o).is_ok()
        }
        8 => {
            let o = h.observers[0].clone();
            h.story.remove_variable_observer(&o, None).is_ok()
        }
        9 => h.story.unbind_external_function(&ext).is_ok(),
        10 => h.story.choose_choice_index(0).is_ok(),
        _ => h.story.choose_path_string(&knot, false, None).is_ok(),
    };
    if ok {
        Some(format!("guarded call #{} was accepted while a continue_async was unfinished", which % 12))
    } else {
        None
    }
}

struct SlicedRun {
    trace: Vec<Obs>,
    view: View,
    save: Result<String, String>,
    fuel: bool,
    paused_after_newline: bool,
    max_slices_per_line: usize,
    refused_ok: Option<String>,
}

/// schedule(line_index) -> budgets for that line; `blocking`: finish with cont() after the budgets
fn run_sliced(
    json_text: &str,
    meta: &std::rc::Rc<Meta>,
    cfg: &HostCfg,
    ops: &[HostOp],
    schedule: &dyn Fn(usize) -> Vec<u32>,
    blocking: bool,
    probes: Option<usize>,
) -> Result<Result<SlicedRun, String>, PanicInfo> {
    guard(|| {
        let mut h = Host::new(json_text, meta.clone(), cfg).map_err(|e| e.to_string())?;
        for (i, g) in meta.globals.iter().enumerate() {
            h.apply(&HostOp::Observe { obs: i % 2, var: g.clone() });
        }
        h.trace.clear();
        let mut line = 0usize;
        let mut paused_after_newline = false;
        let mut max_slices = 0usize;
        let mut refused_ok = None;
        for op in ops {
            match op {
                HostOp::Continue => {
                    if !h.story.can_continue() {
                        h.trace.push(Obs::Skip("continue".into()));
                        continue;
                    }
                    let budgets = schedule(line);
                    line += 1;
                    let mut slices = 0usize;
                    let mut done = false;
                    for b in budgets.iter().copied().chain(if blocking { vec![] } else { vec![u32::MAX; 64] }) {
                        h.apply(&HostOp::Slice(b.max(1)));
                        slices += 1;
                        if !h.story.verif_async_active() {
                            done = true;
                            break;
                        }
                        // paused mid-line
                        if let Some(p) = probes {
                            if let Some(m) = probe_guarded(&mut h, p + slices) {
                                refused_ok.get_or_insert(m);
                            }
                        }
                        // a newline already produced in this continue => snapshot may be alive
                        // (observable only as: the eventual line is longer than nothing)
                        paused_after_newline = true;
                    }
                    if !done {
                        // finish with one blocking continue. A blocking continue has no time limit:
                        // the virtual clock is left armed (1 step) so that a continue which wrongly
                        // still counts itself as time-limited pauses at once, whatever the wall clock
                        h.story.verif_set_async_step_budget(Some(1));
                        let r = h.story.cont();
                        h.story.verif_set_async_step_budget(None);
                        // record like Host::apply(Continue)
                        match r {
                            Ok(text) => {
                                let tags = h.story.get_current_tags().unwrap_or_default();
                                let mut l = h.log.borrow_mut();
                                let mut i = 0;
                                while i < l.len() {
                                    if matches!(l[i], Obs::Notify { .. }) {
                                        let mut j = i;
                                        while j < l.len() && matches!(l[j], Obs::Notify { .. }) {
                                            j += 1;
                                        }
                                        l[i..j].sort_by_key(|o| o.show());
                                        i = j;
                                    } else {
                                        i += 1;
                                    }
                                }
                                h.trace.append(&mut l);
                                drop(l);
                                h.lines.set(h.lines.get() + 1);
                                h.trace.push(Obs::Line { text, tags });
                            }
                            Err(e) => {
                                let mut l = h.log.borrow_mut();
                                h.trace.append(&mut l);
                                drop(l);
                                h.trace.push(err_obs(&e));
                            }
                        }
                        if !h.story.can_continue() {
                            let ch = h.story.get_current_choices();
                            if ch.is_empty() {
                                h.trace.push(Obs::End);
                            } else {
                                h.trace.push(Obs::Choices(
                                    ch.iter().map(|c| (c.text.clone(), c.tags.clone())).collect(),
                                ));
                            }
                        }
                    }
                    max_slices = max_slices.max(slices);
                }
                other => h.apply(other),
            }
        }
        // after the last line every call works again
        let usable = h.story.get_current_text().is_ok() && !h.story.verif_async_active();
        if !usable {
            refused_ok.get_or_insert("story not usable after the history completed (async flag stuck)".to_string());
        }
        Ok(SlicedRun {
            trace: h.trace.clone(),
            view: h.view(),
            save: h.canonical_save(),
            fuel: h.fuel_exhausted(),
            paused_after_newline,
            max_slices_per_line: max_slices,
            refused_ok,
        })
    })
}

fn schedule_from_json(j: &J) -> (String, u32, Vec<Vec<u32>>, bool, Option<usize>) {
    let kind = j["kind"].as_str().unwrap_or("unsliced").to_string();
    let p = j["p"].as_u64().unwrap_or(1) as u32;
    let lists: Vec<Vec<u32>> = j["budgets"]
        .as_array()
        .map(|a| {
            a.iter()
                .map(|l| l.as_array().map(|x| x.iter().filter_map(|v| v.as_u64().map(|u| u as u32)).collect()).unwrap_or_default())
                .collect()
        })
        .unwrap_or_default();
    let blocking = j["blocking"].as_bool().unwrap_or(false);
    let probes = j["probes"].as_u64().map(|v| v as usize);
    (kind, p, lists, blocking, probes)
}

fn compare(case: &J, reference: &SlicedRun, got: &SlicedRun, what: &str) -> Result<(), Fail> {
    if let Some(m) = &got.refused_ok {
        return Err(Fail::violation("guard-missing", format!("{what}: {m}"), case.clone()));
    }
    if let Some((i, a, b)) = first_diff(&reference.trace, &got.trace) {
        return Err(Fail::violation(
            "slicing-changes-story",
            format!("{what}: observation {i}: unsliced {a} / sliced {b}"),
            case.clone(),
        ));
    }
    if let Some(d) = reference.view.diff(&got.view) {
        return Err(Fail::violation("slicing-changes-story", format!("{what}: final view: {d}"), case.clone()));
    }
    if reference.save != got.save {
        return Err(Fail::violation(
            "slicing-changes-story",
            format!(
                "{what}: final save: {}",
                crate::c02::json_diff(reference.save.as_deref().unwrap_or(""), got.save.as_deref().unwrap_or(""))
            ),
            case.clone(),
        ));
    }
    Ok(())
}

pub fn exec(case: &J, acc: &mut Acc) -> Result<(), Fail> {
    inflight(case);
    let (json_text, meta) = case_story(case)?;
    let cfg = cfg_from_json(&case["cfg"]);
    let ops = ops_from_json(&case["ops"]);
    let reference = match run_sliced(&json_text, &meta, &cfg, &ops, &|_| vec![], true, None) {
        Err(p) => return Err(panic_fail(&p, "unsliced run", case)),
        Ok(Err(_)) => {
            acc.discard("story_new_failed");
            return Ok(());
        }
        Ok(Ok(r)) => r,
    };
    if reference.fuel {
        acc.discard("fuel");
        return Ok(());
    }
    // a replayed case names one schedule; a generated case carries a list of schedules
    let schedules: Vec<J> = case["schedules"].as_array().cloned().unwrap_or_default();
    // the all-ones schedule also measures the longest line
    let ones = match run_sliced(&json_text, &meta, &cfg, &ops, &|_| vec![1; 4000], false, None) {
        Err(p) => return Err(panic_fail(&p, "pause-after-every-step run", case)),
        Ok(Err(_)) => return Ok(()),
        Ok(Ok(r)) => r,
    };
    acc.eval();
    if ones.fuel {
        acc.discard("fuel");
        return Ok(());
    }
    if ones.paused_after_newline {
        acc.nontrivial(fnv(&format!("{}|ones", case)));
    }
    compare(case, &reference, &ones, "pause after every step")?;
    let longest = ones.max_slices_per_line.min(120) as u32;
    acc.classn("single_pause_positions", longest as u64);
    let single_limit = case["single_pause_limit"].as_u64().map(|v| v as u32).unwrap_or(longest);
    for p in 1..=longest.min(single_limit) {
        for blocking in [false, true] {
            acc.eval();
            let r = match run_sliced(&json_text, &meta, &cfg, &ops, &|_| vec![p], blocking, Some(p as usize)) {
                Err(pn) => return Err(panic_fail(&pn, &format!("single pause after {p} steps"), case)),
                Ok(Err(_)) => return Ok(()),
                Ok(Ok(r)) => r,
            };
            if r.fuel {
                continue;
            }
            if r.paused_after_newline {
                acc.nontrivial(fnv(&format!("{}|single{p}{blocking}", case)));
            }
            let mut one = case.clone();
            one["schedules"] = json!([]);
            one["single_pause_limit"] = json!(p);
            compare(&one, &reference, &r, &format!("every line paused once after {p} steps (finish blocking={blocking})"))?;
        }
    }
    for s in &schedules {
        acc.eval();
        let (_kind, _p, lists, blocking, probes) = schedule_from_json(s);
        let r = match run_sliced(
            &json_text,
            &meta,
            &cfg,
            &ops,
            &|line| lists.get(line % lists.len().max(1)).cloned().unwrap_or_default(),
            blocking,
            probes,
        ) {
            Err(pn) => return Err(panic_fail(&pn, "multi-pause schedule", case)),
            Ok(Err(_)) => return Ok(()),
            Ok(Ok(r)) => r,
        };
        if r.fuel {
            continue;
        }
        if r.paused_after_newline {
            acc.nontrivial(fnv(&format!("{}|{}", case, s)));
        }
        acc.class("multi_pause_schedule");
        let mut one = case.clone();
        one["schedules"] = json!([s]);
        one["single_pause_limit"] = json!(0);
        compare(&one, &reference, &r, &format!("schedule {s}"))?;
    }
    Ok(())
}

pub fn run(env: &Env) -> i32 {
    let mut rep = Report::new("exploration", RULE);
    rep.assumptions = vec![
        "slicing is decided at interpreter-step granularity through the virtual clock hook (the only places the engine can pause); the wall clock never fires (limit 1e9 ms)".into(),
        "calls the engine does not guard (set_variable, remove_flow, switch_to_default_flow, load_state) are not issued mid-slice and not asserted to be refused".into(),
        "'paused while a snapshot could be alive' is approximated by 'paused at least once inside an unfinished line'".into(),
    ];
    let _ = ValueType::Int(0);
    if let Some(p) = &env.replay {
        return match load_replay_case(p) {
            Ok((_, case)) => {
                let mut acc = Acc::default();
                if let Err(f) = exec(&case, &mut acc) {
                    rep.fails.push(f);
                }
                rep.acc.merge(acc);
                finish(env, rep)
            }
            Err(e) => {
                println!("cannot load replay: {e}");
                2
            }
        };
    }
    replay_saved(env, &mut rep, &exec);
    let prof = profile();
    let n = env.cases(2500, 20000);
    let nsched = env.tier.pick(4, 20);
    let r = run_cases(
        env,
        1,
        n,
        || case_strategy(1500, 120),
        |gc: &GenCase, acc: &mut Acc| {
            let Some(b) = build_or_discard(&gc.prog, &prof, acc) else {
                return Ok(());
            };
            let mut t = Tape::new(&gc.hist);
            // path: continue line by line, choose
            let mut ops = vec![];
            let nseg = 1 + t.pick(4);
            for _ in 0..nseg {
                for _ in 0..(1 + t.pick(6)) {
                    ops.push(HostOp::Continue);
                }
                ops.push(HostOp::ChooseMod(t.pick(4)));
            }
            for _ in 0..4 {
                ops.push(HostOp::Continue);
            }
            let mut schedules = vec![];
            for _ in 0..nsched {
                let nl = 1 + t.pick(4);
                let lists: Vec<Vec<u32>> = (0..nl)
                    .map(|_| (0..t.pick(5)).map(|_| 1 + t.pick(12) as u32).collect())
                    .collect();
                schedules.push(json!({"kind": "multi", "budgets": lists, "blocking": t.chance(1, 2), "probes": t.pick(12)}));
            }
            let cfg = HostCfg {
                handler: t.chance(1, 2),
                bind_externals: Some(t.chance(1, 2)),
                allow_fallbacks: true,
                ..HostCfg::default()
            };
            let case = json!({"source": b.src, "cfg": cfg_to_json(&cfg), "ops": ops_to_json(&ops), "schedules": schedules});
            acc.sample(|| case.clone());
            exec(&case, acc)
        },
    );
    rep.absorb(r);
    let _ = tail(0, 0);
    finish(env, rep)
}
