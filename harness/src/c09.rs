//! C09 — a rejected host call leaves the story exactly as it was.
use crate::common::*;
use crate::engine::*;
use crate::lockstep::*;
use crate::pgen::{Profile, Tape};
use crate::rt::*;
use bladeink::value_type::ValueType;
use serde_json::{Value as J, json};
use std::cell::RefCell;
use std::rc::Rc;

const RULE: &str = "generated programs (+flows, observers, externals) under a valid generated history, with \
invalid host calls injected at generated positions (each kind at every kind of state: mid-paragraph, at a \
choice point, at the end, after an error, in a named flow): cont()/continue_async(t>0) when the story \
cannot continue, choose_choice_index out of range (incl. usize::MAX and while the story can still \
continue), set_variable/observe_variable of an undeclared name, evaluate_function of unknown/empty/blank \
names, choose_path_string to paths naming nothing (with and without call-stack reset), remove_flow of an \
unknown name / the default flow, remove_variable_observer of an observer never registered, binding a bound \
name, unbinding an unbound name, load_state of non-JSON. Each injected call must not panic, must return \
Err (removing an absent flow/observer may be a silent Ok), must leave the polled view and the canonical \
save unchanged, and the whole injected history must produce the same transcript, notifications, final \
view and final save as the history without the injections. Non-trivial = an injected call that returned \
Err and was followed by at least one continue or choice; distinct = hash(program, history, position, kind).";

#[derive(Debug, Clone, PartialEq)]
pub enum Bad {
    ContWhenCannot,
    AsyncWhenCannot,
    ChooseBeyond(usize),
    ChooseMax,
    SetUndeclared,
    ObserveUndeclared,
    EvalUnknown,
    EvalEmpty,
    EvalBlank,
    PathUnknown(bool),
    PathUnknownStitch(bool),
    PathHostile(bool),
    RemoveFlowUnknown,
    RemoveFlowDefault,
    UnobserveUnregistered(bool),
    BindTwice,
    UnbindUnbound,
    LoadGarbage,
    /// valid path, argument of a type a host cannot pass (a divert target read back from a
    /// variable)
    PathBadArg(bool),
    EvalBadArg,
    /// the same with acceptable arguments in front of the refused one
    PathBadArgLast(bool),
    EvalBadArgLast,
    /// before the story's first continue: continue (three times) while one external is unbound
    /// (it is unbound before and bound again afterwards, with the safety it had): refused
    /// every time
    ContUnbound,
}

const N_BAD: usize = 29;

fn bad_from(i: usize) -> Bad {
    match i % N_BAD {
        0 => Bad::ContWhenCannot,
        1 => Bad::AsyncWhenCannot,
        2 => Bad::ChooseBeyond(0),
        3 => Bad::ChooseBeyond(3),
        4 => Bad::ChooseMax,
        5 => Bad::SetUndeclared,
        6 => Bad::ObserveUndeclared,
        7 => Bad::EvalUnknown,
        8 => Bad::EvalEmpty,
        9 => Bad::EvalBlank,
        10 => Bad::PathUnknown(true),
        11 => Bad::PathUnknown(false),
        12 => Bad::PathUnknownStitch(true),
        13 => Bad::PathUnknownStitch(false),
        14 => Bad::PathHostile(true),
        15 => Bad::RemoveFlowUnknown,
        16 => Bad::RemoveFlowDefault,
        17 => Bad::UnobserveUnregistered(true),
        18 => Bad::UnobserveUnregistered(false),
        19 => Bad::BindTwice,
        20 => Bad::UnbindUnbound,
        21 => Bad::LoadGarbage,
        22 => Bad::PathBadArg(true),
        23 => Bad::PathBadArg(false),
        24 => Bad::EvalBadArg,
        25 => Bad::PathBadArgLast(true),
        26 => Bad::PathBadArgLast(false),
        27 => Bad::EvalBadArgLast,
        _ => Bad::ContUnbound,
    }
}

fn bad_name(b: &Bad) -> String {
    format!("{b:?}")
}

fn bad_to_json(b: &Bad) -> J {
    json!(bad_name(b))
}

fn bad_from_json(j: &J) -> Option<Bad> {
    let s = j.as_str()?;
    (0..N_BAD).map(bad_from).find(|b| bad_name(b) == s)
}

struct NeverRegistered;
impl bladeink::story::variable_observer::VariableObserver for NeverRegistered {
    fn changed(&mut self, _: &str, _: &ValueType) {}
}

/// Perform the invalid call. None = its precondition does not hold here (nothing called).
/// Some((returned_err, may_succeed))
fn inject(h: &mut Host, b: &Bad) -> Option<(bool, bool)> {
    let first_knot = h.meta.knots.first().cloned().unwrap_or_else(|| "nothing".into());
    match b {
        Bad::ContWhenCannot => {
            if h.story.can_continue() {
                return None;
            }
            Some((h.story.cont().is_err(), false))
        }
        Bad::AsyncWhenCannot => {
            if h.story.can_continue() {
                return None;
            }
            Some((h.story.continue_async(10.0).is_err(), false))
        }
        Bad::ChooseBeyond(k) => {
            let n = h.story.get_current_choices().len();
            Some((h.story.choose_choice_index(n + k).is_err(), false))
        }
        Bad::ChooseMax => Some((h.story.choose_choice_index(usize::MAX).is_err(), false)),
        Bad::SetUndeclared => Some((
            h.story
                .set_variable("zz_undeclared", &ValueType::Int(1))
                .is_err(),
            false,
        )),
        Bad::ObserveUndeclared => {
            let o = h.observers[0].clone();
            Some((h.story.observe_variable("zz_undeclared", o).is_err(), false))
        }
        Bad::EvalUnknown => {
            let mut out = String::new();
            Some((
                h.story
                    .evaluate_function("zz_no_such_function", None, &mut out)
                    .is_err(),
                false,
            ))
        }
        Bad::EvalEmpty => {
            let mut out = String::new();
            Some((h.story.evaluate_function("", None, &mut out).is_err(), false))
        }
        Bad::EvalBlank => {
            let mut out = String::new();
            Some((h.story.evaluate_function("  \t", None, &mut out).is_err(), false))
        }
        Bad::PathUnknown(reset) => Some((
            h.story
                .choose_path_string("zz_no_such_knot", *reset, None)
                .is_err(),
            false,
        )),
        // `knot.nostitch` is *approximated* to the knot by the engine (as in the reference
        // engine): it may legitimately succeed; only a failure is constrained by C09
        Bad::PathUnknownStitch(reset) => Some((
            h.story
                .choose_path_string(&format!("{first_knot}.zz_nostitch"), *reset, None)
                .is_err(),
            true,
        )),
        Bad::PathHostile(reset) => Some((
            h.story
                .choose_path_string("zz no\"such\\path", *reset, None)
                .is_err(),
            false,
        )),
        Bad::RemoveFlowUnknown => Some((h.story.remove_flow("zz_no_flow").is_err(), true)),
        Bad::RemoveFlowDefault => Some((h.story.remove_flow("DEFAULT_FLOW").is_err(), false)),
        Bad::UnobserveUnregistered(specific) => {
            let o: Rc<RefCell<dyn bladeink::story::variable_observer::VariableObserver>> =
                Rc::new(RefCell::new(NeverRegistered));
            let var = h.meta.globals.first().cloned();
            let r = if *specific {
                match var {
                    Some(v) => h.story.remove_variable_observer(&o, Some(&v)),
                    None => return None,
                }
            } else {
                h.story.remove_variable_observer(&o, None)
            };
            Some((r.is_err(), true))
        }
        Bad::BindTwice => {
            // (an external that the history has unbound may be bound again: only a binding
            // that is still in place makes the call invalid)
            let name = h.meta.externals.iter().map(|(n, _)| n.clone()).find(|n| h.bound.contains(n))?;
            if h.cfg.bind_externals.is_none() {
                return None;
            }
            // the refused second binding is observably different from the first (returns
            // nothing, opposite look-ahead safety): if it replaced the handler, later calls show it
            let safe = h.cfg.bind_externals.unwrap_or(true);
            let r = h.story.bind_external_function(
                &name,
                Rc::new(RefCell::new(Ext {
                    log: h.log.clone(),
                    lines: h.lines.clone(),
                    returns_value: false,
                })),
                !safe,
            );
            Some((r.is_err(), false))
        }
        Bad::UnbindUnbound => Some((
            h.story.unbind_external_function("zz_not_bound").is_err(),
            false,
        )),
        Bad::LoadGarbage => Some((h.story.load_state("this is { not json").is_err(), false)),
        Bad::PathBadArg(reset) => {
            let v = h.story.get_variable("zz_dt")?;
            if !matches!(v, ValueType::DivertTarget(_)) {
                return None;
            }
            Some((h.story.choose_path_string(&first_knot, *reset, Some(&vec![v])).is_err(), false))
        }
        Bad::EvalBadArg => {
            let v = h.story.get_variable("zz_dt")?;
            if !matches!(v, ValueType::DivertTarget(_)) {
                return None;
            }
            let name = h.meta.knots.iter().find(|k| k.contains('f')).cloned().unwrap_or(first_knot.clone());
            let mut out = String::new();
            Some((h.story.evaluate_function(&name, Some(&vec![v]), &mut out).is_err(), false))
        }
        Bad::ContUnbound => {
            // only before the story's first continue: bindings are validated once (as in the
            // reference runtime); an external unbound later fails when it is called instead
            if !h.story.can_continue() || !h.trace.is_empty() {
                return None;
            }
            // (an external with an Ink fallback of its name plays on: fallbacks are allowed here)
            let name = h.bound.iter().find(|n| !h.meta.knots.contains(n)).cloned()?;
            let safe = h.bound_safe.get(&name).copied().unwrap_or(true);
            if h.story.unbind_external_function(&name).is_err() {
                return None;
            }
            let first = h.story.cont().is_err();
            let second = h.story.cont().is_err();
            let third = h.story.continue_maximally().is_err();
            let _ = h.story.bind_external_function(
                &name,
                Rc::new(RefCell::new(Ext { log: h.log.clone(), lines: h.lines.clone(), returns_value: true })),
                safe,
            );
            Some((first && second && third, false))
        }
        Bad::PathBadArgLast(reset) => {
            let v = h.story.get_variable("zz_dt")?;
            if !matches!(v, ValueType::DivertTarget(_)) {
                return None;
            }
            let args = vec![ValueType::Int(7), ValueType::new::<&str>("word"), v];
            Some((h.story.choose_path_string(&first_knot, *reset, Some(&args)).is_err(), false))
        }
        Bad::EvalBadArgLast => {
            let v = h.story.get_variable("zz_dt")?;
            if !matches!(v, ValueType::DivertTarget(_)) {
                return None;
            }
            let name = h.meta.knots.iter().find(|k| k.contains('f')).cloned().unwrap_or(first_knot.clone());
            let mut out = String::new();
            let args = vec![ValueType::Int(7), v];
            Some((h.story.evaluate_function(&name, Some(&args), &mut out).is_err(), false))
        }
    }
}

pub fn exec(case: &J, acc: &mut Acc) -> Result<(), Fail> {
    inflight(case);
    let (json_text, meta) = case_story(case)?;
    let cfg = cfg_from_json(&case["cfg"]);
    let ops = ops_from_json(&case["ops"]);
    let injections: Vec<(usize, Bad)> = case["inject"]
        .as_array()
        .map(|a| {
            a.iter()
                .filter_map(|x| Some((x["at"].as_u64()? as usize, bad_from_json(&x["call"])?)))
                .collect()
        })
        .unwrap_or_default();
    acc.eval();
    // reference run
    let reference = match run_marked(&json_text, &meta, &cfg, &ops, false) {
        Err(p) => return Err(panic_fail(&p, "history without injections", case)),
        Ok(Err(_)) => {
            acc.discard("story_new_failed");
            return Ok(());
        }
        Ok(Ok(m)) => m,
    };
    if reference.fuel_out {
        acc.discard("fuel");
        return Ok(());
    }
    // injected run
    let r = guard(|| {
        let mut h = Host::new(&json_text, meta.clone(), &cfg).map_err(|e| e.to_string())?;
        let mut report: Vec<(usize, Bad, bool, bool, Option<String>)> = vec![];
        for (i, op) in ops.iter().enumerate().chain(std::iter::once((ops.len(), &HostOp::Save))) {
            for (at, bad) in &injections {
                if *at != i {
                    continue;
                }
                let before_view = h.view();
                let before_save = h.canonical_save();
                let before_log = h.log.borrow().len();
                if let Some((was_err, may_ok)) = inject(&mut h, bad) {
                    if !was_err && matches!(bad, Bad::PathUnknownStitch(_)) {
                        // the jump was accepted (approximated): a valid call, not a rejected one
                        return Ok(None);
                    }
                    let mut local = None;
                    let after_view = h.view();
                    let after_save = h.canonical_save();
                    if let Some(d) = before_view.diff(&after_view) {
                        local = Some(format!("view changed: {d}"));
                    } else if before_save != after_save {
                        local = Some(format!(
                            "saved state changed: {}",
                            crate::c02::json_diff(before_save.as_deref().unwrap_or(""), after_save.as_deref().unwrap_or(""))
                        ));
                    } else if h.log.borrow().len() != before_log {
                        local = Some("callbacks fired during the rejected call".to_string());
                    }
                    report.push((i, bad.clone(), was_err, may_ok, local));
                }
            }
            if i < ops.len() {
                h.apply(op);
            }
        }
        Ok::<_, String>(Some((report, h.trace.clone(), h.view(), h.canonical_save(), h.fuel_exhausted())))
    });
    let (report, trace, view, save, fuel) = match r {
        Err(p) => return Err(panic_fail(&p, "history with injected invalid calls", case)),
        Ok(Err(_)) => return Ok(()),
        Ok(Ok(None)) => {
            acc.discard("approximated_path_accepted");
            return Ok(());
        }
        Ok(Ok(Some(x))) => x,
    };
    for (at, bad, was_err, may_ok, local) in &report {
        acc.class(&format!("injected:{}", bad_name(bad).split('(').next().unwrap_or("")));
        if !was_err && !may_ok {
            return Err(Fail::violation(
                format!("accepted:{}", bad_name(bad).split('(').next().unwrap_or("")),
                format!("invalid call {bad:?} at position {at} returned Ok"),
                case.clone(),
            ));
        }
        if let Some(l) = local {
            return Err(Fail::violation(
                format!("changed-by:{}", bad_name(bad).split('(').next().unwrap_or("")),
                format!("rejected call {bad:?} at position {at} changed the story: {l}"),
                case.clone(),
            ));
        }
        if *was_err {
            let later = ops[(*at).min(ops.len())..]
                .iter()
                .any(|o| matches!(o, HostOp::Continue | HostOp::ContinueMax | HostOp::ChooseMod(_)));
            if later {
                acc.nontrivial(fnv(&format!("{}{}{}{:?}", json_text.len(), ops_to_json(&ops), at, bad)) ^ fnv(&json_text));
            }
        }
    }
    if fuel {
        return Ok(());
    }
    // (the message about several unbound externals lists them in hash order: a diagnostic
    // text, sorted here before the comparison)
    let norm = |t: &[Obs]| -> Vec<Obs> {
        t.iter()
            .map(|o| match o {
                Obs::Err { kind, msg } if msg.contains("Missing function binding for externals: '") => {
                    let (head, rest) = msg.split_once("externals: '").unwrap();
                    let (list, tail) = rest.split_once('\'').unwrap_or((rest, ""));
                    let mut names: Vec<&str> = list.split(", ").collect();
                    names.sort();
                    Obs::Err { kind: kind.clone(), msg: format!("{head}externals: '{}'{tail}", names.join(", ")) }
                }
                o => o.clone(),
            })
            .collect()
    };
    if let Some((i, a, b)) = first_diff(&norm(&reference.trace), &norm(&trace)) {
        return Err(Fail::violation(
            "later-behaviour-differs",
            format!(
                "history with rejected calls {:?} diverges from the same history without them at observation {i}: without {a} / with {b}",
                report.iter().map(|r| (r.0, bad_name(&r.1))).collect::<Vec<_>>()
            ),
            case.clone(),
        ));
    }
    if let Some(d) = reference.final_view.diff(&view) {
        return Err(Fail::violation(
            "later-behaviour-differs",
            format!("final view differs after rejected calls: {d}"),
            case.clone(),
        ));
    }
    if let (Some(a), Ok(b)) = (&reference.final_save, &save) {
        let ca = canonical_json_text(a);
        if ca != *b {
            return Err(Fail::violation(
                "later-behaviour-differs",
                format!("final save differs after rejected calls: {}", crate::c02::json_diff(&ca, b)),
                case.clone(),
            ));
        }
    }
    Ok(())
}

pub fn run(env: &Env) -> i32 {
    let mut rep = Report::new("exploration", RULE);
    rep.assumptions = vec![
        "removing a flow or observer that is not there may be a silent Ok no-op (the property constrains calls that fail)".into(),
        "bad argument *types* for evaluate_function cannot be constructed by a host (divert-target and variable-pointer values have no public constructor) and are not injected".into(),
        "the view is polled (can_continue, text, tags, choices, errors, warnings, globals, visit counts) and the state is saved before and after each injected call; polling itself is part of both runs".into(),
    ];
    if let Some(p) = &env.replay {
        return match load_replay_case(p) {
            Ok((_, case)) => {
                let mut acc = Acc::default();
                if let Err(f) = exec(&case, &mut acc) {
                    rep.fails.push(f);
                }
                rep.acc.merge(acc);
                finish(env, rep)
            }
            Err(e) => {
                println!("cannot load replay: {e}");
                2
            }
        };
    }
    replay_saved(env, &mut rep, &exec);
    let prof = Profile {
        lists: true,
        random: true,
        externals: true,
        ..Profile::default()
    };
    let hp = HistProfile {
        save: 2,
        load: 2,
        reset: 1,
        flows: 8,
        choose_path: 3,
        set_var: 3,
        eval: 2,
        observe: 6,
        binds: 5,
        ..HistProfile::default()
    };
    let n = env.cases(8000, 200000);
    let r = run_cases(
        env,
        1,
        n,
        || case_strategy(1500, 80),
        |gc: &GenCase, acc: &mut Acc| {
            let Some(b) = build_or_discard(&gc.prog, &prof, acc) else {
                return Ok(());
            };
            // the first 50 history values drive the valid history, the rest the injections
            let split = gc.hist.len().min(50);
            let ops = decode_history(&gc.hist[..split], &b.meta, &hp);
            let mut t = Tape::new(&gc.hist[split..]);
            let ninj = 1 + t.pick(4);
            let mut inject = vec![];
            for _ in 0..ninj {
                let at = t.pick(ops.len() + 1);
                let bad = bad_from(t.pick(N_BAD));
                inject.push(json!({"at": at, "call": bad_to_json(&bad)}));
            }
            if !b.meta.externals.is_empty() && t.chance(1, 2) {
                inject.push(json!({"at": 0, "call": bad_to_json(&Bad::ContUnbound)}));
            }
            let cfg = HostCfg {
                handler: gc.hist.first().map(|v| v & 1 == 1).unwrap_or(false),
                allow_fallbacks: true,
                ..HostCfg::default()
            };
            // a global holding a divert target: the only way a host gets hold of a value of a
            // type it may not pass as an argument
            let src = if b.src.contains("=== k0") { format!("VAR zz_dt = -> k0\n{}", b.src) } else { b.src.clone() };
            let case = json!({"source": src, "cfg": cfg_to_json(&cfg), "ops": ops_to_json(&ops), "inject": inject});
            acc.sample(|| case.clone());
            exec(&case, acc)
        },
    );
    rep.absorb(r);
    finish(env, rep)
}
