//! C18 — dropping a story releases all the memory it used.
use crate::alloc::live;
use crate::common::*;
use crate::engine::*;
use crate::pgen::Profile;
use crate::rt::*;
use serde_json::{Value as J, json};

const RULE: &str = "generated programs biased to what creates reference cycles (loops between knots, diverts to \
ancestors, sticky loops, tunnels, threads, variable diverts, sequences, conditionals, lists), idiom programs and \
the reference corpus stories, each under a generated history (continues, choices, saves, loads, resets, flow \
switches, path jumps, evaluate_function). The harness binary installs a counting global allocator (live bytes \
and blocks per thread). Relation A: after two warm-up cycles, live bytes before a create -> play -> drop cycle \
equal live bytes after it, for 4 (quick) / 12 (thorough) further cycles, exactly. Relation B: on one instance, \
repeated (reset_state + replay) rounds and repeated load_state of the same save keep live bytes at the level \
of the first repetition (no growth per round). Relation C: on the same instance, rounds of switch_flow(new name) -> remove_flow (once removed while current, once after switching back) do not grow it. Non-trivial = program whose play executed at least one divert \
more than once or a sequence/conditional (cached divert targets, the classic cycle), or used lists; distinct \
= hash(program, history).";

fn cycle(json_text: &str, meta: &std::rc::Rc<Meta>, cfg: &HostCfg, ops: &[HostOp]) -> Result<bool, String> {
    let mut h = Host::new(json_text, meta.clone(), cfg).map_err(|e| e.to_string())?;
    h.run(ops);
    let fuel = h.fuel_exhausted();
    drop(h);
    Ok(fuel)
}

pub fn exec(case: &J, acc: &mut Acc) -> Result<(), Fail> {
    inflight(case);
    let (json_text, meta) = case_story(case)?;
    let cfg = cfg_from_json(&case["cfg"]);
    let ops = ops_from_json(&case["ops"]);
    let rounds = case["rounds"].as_u64().unwrap_or(4) as usize;
    acc.eval();
    let src = case["source"].as_str().unwrap_or("");
    if src.contains("-> ") && (src.contains('{') || src.contains("LIST") || src.contains("+ ")) {
        acc.nontrivial(fnv(&case.to_string()));
    }
    // Relation A
    let r = guard(|| -> Result<Option<(usize, isize, isize)>, String> {
        for _ in 0..2 {
            if cycle(&json_text, &meta, &cfg, &ops)? {
                return Ok(None);
            }
        }
        for k in 0..rounds {
            let before = live();
            cycle(&json_text, &meta, &cfg, &ops)?;
            let after = live();
            if after.0 != before.0 {
                return Ok(Some((k, after.0 - before.0, after.1 - before.1)));
            }
        }
        Ok(None)
    });
    match r {
        Err(p) => return Err(crate::lockstep::panic_fail(&p, "create-play-drop cycle", case)),
        Ok(Err(_)) => {
            acc.discard("story_new_failed");
            return Ok(());
        }
        Ok(Ok(Some((k, bytes, blocks)))) => {
            return Err(Fail::violation(
                "leak-per-create-play-drop",
                format!("create -> play -> drop cycle {k} after warm-up left {bytes} bytes in {blocks} blocks behind"),
                case.clone(),
            ));
        }
        Ok(Ok(None)) => {}
    }
    // Relation B: one instance, repeated reset+replay and repeated load of the same save
    let r = guard(|| -> Result<Option<(String, usize, isize)>, String> {
        let mut h = Host::new(&json_text, meta.clone(), &cfg).map_err(|e| e.to_string())?;
        h.run(&ops);
        if h.fuel_exhausted() {
            return Ok(None);
        }
        let save = h.story.save_state().ok();
        // resets
        let mut level: Option<isize> = None;
        for k in 0..(rounds + 2) {
            h.trace.clear();
            h.story.verif_set_fuel(Some(cfg.fuel));
            let _ = h.story.reset_state();
            h.story.verif_set_story_seed(cfg.seed);
            h.lines.set(0);
            h.run(&ops);
            // leave the story in the same state each round: reset once more
            let _ = h.story.reset_state();
            h.trace.clear();
            h.trace.shrink_to_fit();
            h.last_save = None;
            let now = live().0;
            if k >= 2 {
                match level {
                    None => level = Some(now),
                    Some(l) => {
                        if now > l {
                            return Ok(Some(("reset+replay".into(), k, now - l)));
                        }
                    }
                }
            }
        }
        if let Some(save) = save {
            let mut level: Option<isize> = None;
            for k in 0..(rounds + 2) {
                let _ = h.story.load_state(&save);
                let now = live().0;
                if k >= 2 {
                    match level {
                        None => level = Some(now),
                        Some(l) => {
                            if now > l {
                                return Ok(Some(("load_state".into(), k, now - l)));
                            }
                        }
                    }
                }
            }
        }
        // Relation C: opening, playing and removing a named flow (a new name every round, the
        // flow removed while it is the current one, or after switching back to the default
        // flow) must not grow the instance either
        for remove_while_current in [true, false] {
            let _ = h.story.reset_state();
            let mut level: Option<isize> = None;
            for k in 0..(rounds + 3) {
                let name = format!("churn{}{}", remove_while_current as u8, k);
                h.story.verif_set_fuel(Some(cfg.fuel));
                if h.story.switch_flow(&name).is_err() {
                    break;
                }
                // (nothing is played inside the flow: visit counts and sequence positions are
                // shared state that legitimately grows with play; the rounds must leave it alone)
                if !remove_while_current {
                    h.story.switch_to_default_flow();
                }
                let _ = h.story.remove_flow(&name);
                drop(name);
                h.log.borrow_mut().clear();
                let now = live().0;
                if k >= 3 {
                    match level {
                        None => level = Some(now),
                        Some(l) => {
                            if now > l {
                                let what = if remove_while_current { "switch_flow + remove_flow (removed while current)" } else { "switch_flow + remove_flow (removed after switching back)" };
                                return Ok(Some((what.into(), k, now - l)));
                            }
                        }
                    }
                }
            }
        }
        Ok(None)
    });
    match r {
        Err(p) => Err(crate::lockstep::panic_fail(&p, "reset/load rounds", case)),
        Ok(Err(_)) => Ok(()),
        Ok(Ok(Some((what, k, bytes)))) => Err(Fail::violation(
            "heap-grows-per-round",
            format!("repeating {what} on one instance grows the heap: round {k} is {bytes} bytes above the first measured round"),
            case.clone(),
        )),
        Ok(Ok(None)) => Ok(()),
    }
}

pub fn run(env: &Env) -> i32 {
    let mut rep = Report::new("exploration", RULE);
    rep.assumptions = vec![
        "memory = Rust heap as seen by a counting #[global_allocator], per thread; every case runs on one thread; allocator caches of the OS are irrelevant to the property".into(),
        "two warm-up cycles/rounds absorb lazily initialised process-wide state".into(),
    ];
    if let Some(p) = &env.replay {
        return match load_replay_case(p) {
            Ok((_, case)) => {
                let mut acc = Acc::default();
                if let Err(f) = exec(&case, &mut acc) {
                    rep.fails.push(f);
                }
                rep.acc.merge(acc);
                finish(env, rep)
            }
            Err(e) => {
                println!("cannot load replay: {e}");
                2
            }
        };
    }
    replay_saved(env, &mut rep, &exec);
    let prof = Profile::rich();
    let hp = HistProfile {
        save: 3,
        load: 3,
        reset: 2,
        flows: 6,
        choose_path: 3,
        eval: 2,
        set_var: 2,
        max_ops: 24,
        ..HistProfile::default()
    };
    let rounds = env.tier.pick(4, 12);
    let n = env.cases(8000, 60000);
    let r = run_cases(
        env,
        1,
        n,
        || case_strategy(1500, 80),
        |gc: &GenCase, acc: &mut Acc| {
            let Some(b) = build_or_discard(&gc.prog, &prof, acc) else {
                return Ok(());
            };
            let ops = decode_history(&gc.hist, &b.meta, &hp);
            // a quarter of the cases leave the externals unbound (Ink fallbacks run instead)
            let cfg = HostCfg {
                handler: gc.hist.first().map(|v| v & 1 == 1).unwrap_or(false),
                allow_fallbacks: true,
                bind_externals: if gc.hist.first().map(|v| (v >> 1) & 3 == 0).unwrap_or(false) { None } else { Some(true) },
                ..HostCfg::default()
            };
            let case = json!({"source": b.src, "cfg": cfg_to_json(&cfg), "ops": ops_to_json(&ops), "rounds": rounds});
            acc.sample(|| case.clone());
            exec(&case, acc)
        },
    );
    rep.absorb(r);
    // corpus
    let docs = corpus_jsons();
    let list: Vec<J> = docs
        .iter()
        .map(|p| {
            let mut ops = vec![];
            for k in 0..6 {
                ops.push(HostOp::ContinueMax);
                ops.push(HostOp::ChooseMod(k));
            }
            json!({"corpus_file": p.display().to_string(), "cfg": cfg_to_json(&HostCfg { allow_fallbacks: true, ..HostCfg::default() }), "ops": ops_to_json(&ops), "rounds": rounds})
        })
        .collect();
    let r = run_list(env, &list, |c, acc| exec(c, acc));
    rep.absorb(r);
    finish(env, rep)
}
