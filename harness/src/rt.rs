//! Runtime driver: everything the checks observe goes through the public API a host uses.
use bladeink::story::Story;
use bladeink::story::errors::{ErrorHandler, ErrorType};
use bladeink::story::external_functions::ExternalFunction;
use bladeink::story::variable_observer::VariableObserver;
use bladeink::story_error::StoryError;
use bladeink::value_type::ValueType;
use serde_json::{Value as J, json};
use std::cell::{Cell, RefCell};
use std::collections::BTreeMap;
use std::rc::Rc;

pub const DEFAULT_FUEL: u64 = 20_000;

// ------------------------------------------------------------------------------------
// panic capture

thread_local! {
    static LAST_PANIC: RefCell<Option<(String, String)>> = const { RefCell::new(None) };
    static QUIET: Cell<bool> = const { Cell::new(false) };
}

pub fn install_panic_hook() {
    let default = std::panic::take_hook();
    std::panic::set_hook(Box::new(move |info| {
        let loc = info
            .location()
            .map(|l| format!("{}:{}", l.file(), l.line()))
            .unwrap_or_else(|| "?".into());
        let msg = if let Some(s) = info.payload().downcast_ref::<&str>() {
            s.to_string()
        } else if let Some(s) = info.payload().downcast_ref::<String>() {
            s.clone()
        } else {
            "?".into()
        };
        LAST_PANIC.with(|p| *p.borrow_mut() = Some((loc, msg)));
        if !QUIET.with(|q| q.get()) {
            default(info);
        }
    }));
}

#[derive(Debug, Clone)]
pub struct PanicInfo {
    pub loc: String,
    pub msg: String,
}

impl PanicInfo {
    /// location relative to the repository (stable key for known findings)
    pub fn site(&self) -> String {
        let l = self.loc.replace("/repo/", "");
        l
    }
}

/// Run `f`, turning a panic into a value. The panic message is not printed.
pub fn guard<T>(f: impl FnOnce() -> T) -> Result<T, PanicInfo> {
    QUIET.with(|q| q.set(true));
    LAST_PANIC.with(|p| *p.borrow_mut() = None);
    let r = std::panic::catch_unwind(std::panic::AssertUnwindSafe(f));
    QUIET.with(|q| q.set(false));
    match r {
        Ok(v) => Ok(v),
        Err(_) => {
            let (loc, msg) = LAST_PANIC
                .with(|p| p.borrow_mut().take())
                .unwrap_or(("?".into(), "?".into()));
            Err(PanicInfo { loc, msg })
        }
    }
}

// ------------------------------------------------------------------------------------
// compile

pub fn compile(src: &str) -> Result<String, String> {
    bladeink_compiler::Compiler::new()
        .compile(src)
        .map_err(|e| e.to_string())
}

// ------------------------------------------------------------------------------------
// values

pub fn render_value(v: &ValueType) -> String {
    match v {
        ValueType::Bool(b) => format!("B:{b}"),
        ValueType::Int(i) => format!("I:{i}"),
        ValueType::Float(f) => format!("F:{f:?}"),
        ValueType::String(s) => format!("S:{:?}", s.string),
        ValueType::List(l) => {
            let mut items: Vec<String> = l
                .items
                .iter()
                .map(|(k, v)| format!("{}={}", k.get_full_name(), v))
                .collect();
            items.sort();
            if items.is_empty() {
                let mut o = l.get_origin_names();
                o.sort();
                o.dedup();
                format!("L:[]@{}", o.join(","))
            } else {
                format!("L:[{}]", items.join(","))
            }
        }
        ValueType::DivertTarget(p) => format!("D:{p}"),
        ValueType::VariablePointer(_) => "P:?".to_string(),
    }
}

pub fn render_opt_value(v: &Option<ValueType>) -> String {
    match v {
        Some(v) => render_value(v),
        None => "none".into(),
    }
}

/// A host-side argument (subset a host can construct).
#[derive(Debug, Clone, PartialEq)]
pub enum Arg {
    I(i32),
    B(bool),
    F(f32),
    S(String),
    /// the value the host reads from this global at the moment of the call (the only way a
    /// host gets hold of a list value)
    G(String),
}

impl Arg {
    pub fn to_value(&self) -> ValueType {
        match self {
            Arg::I(i) => ValueType::Int(*i),
            Arg::B(b) => ValueType::Bool(*b),
            Arg::F(f) => ValueType::Float(*f),
            Arg::S(s) => ValueType::new::<&str>(s.as_str()),
            Arg::G(_) => ValueType::Int(0),
        }
    }
    pub fn to_json(&self) -> J {
        match self {
            Arg::I(i) => json!({"i": i}),
            Arg::B(b) => json!({"b": b}),
            Arg::F(f) => json!({"f": f}),
            Arg::S(s) => json!({"s": s}),
            Arg::G(g) => json!({"g": g}),
        }
    }
    pub fn from_json(j: &J) -> Option<Arg> {
        let o = j.as_object()?;
        if let Some(v) = o.get("i") {
            return Some(Arg::I(v.as_i64()? as i32));
        }
        if let Some(v) = o.get("b") {
            return Some(Arg::B(v.as_bool()?));
        }
        if let Some(v) = o.get("f") {
            return Some(Arg::F(v.as_f64()? as f32));
        }
        if let Some(v) = o.get("s") {
            return Some(Arg::S(v.as_str()?.to_string()));
        }
        if let Some(v) = o.get("g") {
            return Some(Arg::G(v.as_str()?.to_string()));
        }
        None
    }
}

// ------------------------------------------------------------------------------------
// story metadata, read from the compiled JSON (independent of the runtime's loader)

#[derive(Debug, Clone, Default)]
pub struct Meta {
    pub globals: Vec<String>,
    /// every container path that has a name or counting flags
    pub count_paths: Vec<String>,
    /// top-level named containers (knots and functions), without "global decl"
    pub knots: Vec<String>,
    /// knot.stitch style second-level named containers
    pub stitches: Vec<String>,
    /// names of externals referenced ("x()") with their arg counts
    pub externals: Vec<(String, usize)>,
    /// top-level containers the story itself calls as functions ("f()")
    pub functions: Vec<String>,
    /// list definitions: name -> items
    pub lists: Vec<(String, Vec<(String, i64)>)>,
}

fn is_internal_name(k: &str) -> bool {
    let b = k.as_bytes();
    (b.len() >= 3 && (b[0] == b'c' || b[0] == b'g') && b[1] == b'-' && b[2..].iter().all(|c| c.is_ascii_digit()))
        || k.starts_with('$')
}

fn walk_container(arr: &[J], path: &str, meta: &mut Meta, depth: usize) {
    if arr.is_empty() {
        return;
    }
    let n = arr.len();
    for (i, el) in arr[..n - 1].iter().enumerate() {
        let p = if path.is_empty() {
            format!("{i}")
        } else {
            format!("{path}.{i}")
        };
        match el {
            J::Array(sub) => {
                // unnamed (or "#n"-named) sub container in content
                let name = sub
                    .last()
                    .and_then(|l| l.as_object())
                    .and_then(|o| o.get("#n"))
                    .and_then(|v| v.as_str());
                let p2 = match name {
                    Some(nm) => {
                        if path.is_empty() {
                            nm.to_string()
                        } else {
                            format!("{path}.{nm}")
                        }
                    }
                    None => p.clone(),
                };
                let flagged = sub
                    .last()
                    .and_then(|l| l.as_object())
                    .map(|o| o.contains_key("#f"))
                    .unwrap_or(false);
                if flagged {
                    meta.count_paths.push(p2.clone());
                }
                walk_container(sub, &p2, meta, depth + 1);
            }
            J::Object(o) => {
                if let Some(name) = o.get("f()").and_then(|v| v.as_str()) {
                    if !name.contains('.') && !meta.functions.iter().any(|n| n == name) {
                        meta.functions.push(name.to_string());
                    }
                }
                if let Some(name) = o.get("x()").and_then(|v| v.as_str()) {
                    let nargs = o.get("exArgs").and_then(|v| v.as_u64()).unwrap_or(0) as usize;
                    if !meta.externals.iter().any(|(n, _)| n == name) {
                        meta.externals.push((name.to_string(), nargs));
                    }
                }
                if path == "global decl"
                    || path.starts_with("global decl.")
                {
                    if let Some(name) = o.get("VAR=").and_then(|v| v.as_str()) {
                        if !meta.globals.iter().any(|g| g == name) {
                            meta.globals.push(name.to_string());
                        }
                    }
                }
            }
            _ => {}
        }
    }
    if let Some(J::Object(named)) = arr.last() {
        for (k, v) in named {
            if k == "#f" || k == "#n" {
                continue;
            }
            if let J::Array(sub) = v {
                let p2 = if path.is_empty() {
                    k.clone()
                } else {
                    format!("{path}.{k}")
                };
                if path.is_empty() && k != "global decl" {
                    meta.knots.push(k.clone());
                } else if depth == 1
                    && !path.starts_with("global decl")
                    && !path.chars().next().map(|c| c.is_ascii_digit()).unwrap_or(true)
                    && !is_internal_name(k)
                {
                    // knot.stitch (weave-internal containers such as c-0 / g-0 / labels inside
                    // a knot's top-level weave are not addresses the API documents)
                    meta.stitches.push(p2.clone());
                }
                let flagged = sub
                    .last()
                    .and_then(|l| l.as_object())
                    .map(|o| o.contains_key("#f"))
                    .unwrap_or(false);
                if flagged {
                    meta.count_paths.push(p2.clone());
                }
                walk_container(sub, &p2, meta, depth + 1);
            }
        }
    }
}

pub fn meta_from_json(json_text: &str) -> Meta {
    let mut meta = Meta::default();
    let Ok(j) = serde_json::from_str::<J>(json_text) else {
        return meta;
    };
    if let Some(J::Array(root)) = j.get("root") {
        walk_container(root, "", &mut meta, 0);
    }
    if let Some(J::Object(defs)) = j.get("listDefs") {
        for (k, v) in defs {
            let mut items = vec![];
            if let J::Object(o) = v {
                for (ik, iv) in o {
                    items.push((ik.clone(), iv.as_i64().unwrap_or(0)));
                }
            }
            meta.lists.push((k.clone(), items));
        }
    }
    meta.count_paths.sort();
    meta.count_paths.dedup();
    meta
}

// ------------------------------------------------------------------------------------
// observations

#[derive(Debug, Clone, PartialEq)]
pub enum Obs {
    Line { text: String, tags: Vec<String> },
    Choices(Vec<(String, Vec<String>)>),
    End,
    /// a host call returned Err (kind = variant name)
    Err { kind: String, msg: String },
    Handler { warning: bool, msg: String },
    Notify { obs: usize, var: String, value: String },
    Ext { name: String, args: Vec<String>, lines: usize },
    /// result of a host call that returns data (evaluate_function, get...)
    Ret(String),
    /// marker: an op was skipped because its precondition did not hold
    Skip(String),
}

impl Obs {
    pub fn show(&self) -> String {
        match self {
            Obs::Line { text, tags } => {
                if tags.is_empty() {
                    format!("LINE {:?}", text)
                } else {
                    format!("LINE {:?} #{:?}", text, tags)
                }
            }
            Obs::Choices(c) => format!("CHOICES {:?}", c),
            Obs::End => "END".into(),
            Obs::Err { kind, msg } => format!("ERR {kind}: {msg}"),
            Obs::Handler { warning, msg } => {
                format!("HANDLER {} {msg}", if *warning { "W" } else { "E" })
            }
            Obs::Notify { obs, var, value } => format!("NOTIFY o{obs} {var}={value}"),
            Obs::Ext { name, args, lines } => format!("EXT {name}({}) @{lines}", args.join(",")),
            Obs::Ret(s) => format!("RET {s}"),
            Obs::Skip(s) => format!("SKIP {s}"),
        }
    }
    /// same observation with error message text blanked (kind kept)
    pub fn without_msg(&self) -> Obs {
        match self {
            Obs::Err { kind, .. } => Obs::Err {
                kind: kind.clone(),
                msg: String::new(),
            },
            Obs::Handler { warning, .. } => Obs::Handler {
                warning: *warning,
                msg: String::new(),
            },
            o => o.clone(),
        }
    }
}

pub fn err_kind(e: &StoryError) -> String {
    match e {
        StoryError::InvalidStoryState(_) => "InvalidStoryState".into(),
        StoryError::BadJson(_) => "BadJson".into(),
        StoryError::BadArgument(_) => "BadArgument".into(),
    }
}

pub fn err_obs(e: &StoryError) -> Obs {
    let s = e.to_string();
    Obs::Err {
        kind: err_kind(e),
        msg: s,
    }
}

pub fn show_trace(t: &[Obs]) -> Vec<String> {
    t.iter().map(|o| o.show()).collect()
}

// ------------------------------------------------------------------------------------
// host-side callbacks

pub type Log = Rc<RefCell<Vec<Obs>>>;

pub struct Observer {
    pub id: usize,
    pub log: Log,
}
impl VariableObserver for Observer {
    fn changed(&mut self, variable_name: &str, value: &ValueType) {
        self.log.borrow_mut().push(Obs::Notify {
            obs: self.id,
            var: variable_name.to_string(),
            value: render_value(value),
        });
    }
}

pub struct Handler {
    pub log: Log,
}
impl ErrorHandler for Handler {
    fn error(&mut self, message: &str, error_type: ErrorType) {
        self.log.borrow_mut().push(Obs::Handler {
            warning: error_type == ErrorType::Warning,
            msg: message.to_string(),
        });
    }
}

/// Pure external stub: result is a function of name and arguments only.
pub struct Ext {
    pub log: Log,
    pub lines: Rc<Cell<usize>>,
    pub returns_value: bool,
}
pub fn ext_result(name: &str, args: &[String]) -> i32 {
    let mut h: u32 = 2166136261;
    for b in name.bytes().chain(args.iter().flat_map(|a| a.bytes())) {
        h ^= b as u32;
        h = h.wrapping_mul(16777619);
    }
    (h % 7) as i32
}
impl ExternalFunction for Ext {
    fn call(&mut self, func_name: &str, args: Vec<ValueType>) -> Option<ValueType> {
        let a: Vec<String> = args.iter().map(render_value).collect();
        let r = ext_result(func_name, &a);
        self.log.borrow_mut().push(Obs::Ext {
            name: func_name.to_string(),
            args: a,
            lines: self.lines.get(),
        });
        if self.returns_value {
            Some(ValueType::Int(r))
        } else {
            None
        }
    }
}

// ------------------------------------------------------------------------------------
// the host

#[derive(Debug, Clone, PartialEq)]
pub enum HostOp {
    Continue,
    ContinueMax,
    Choose(usize),
    /// choose modulo the number of choices (always valid when there are choices)
    ChooseMod(usize),
    ChoosePath { path: String, reset: bool, args: Vec<Arg> },
    SwitchFlow(String),
    SwitchDefault,
    RemoveFlow(String),
    Save,
    LoadLast,
    Reset,
    SetVar(String, Arg),
    Observe { obs: usize, var: String },
    Unobserve { obs: usize, var: Option<String> },
    Eval { func: String, args: Vec<Arg> },
    Bind { name: String, safe: bool },
    Unbind(String),
    /// a time-limited continue with a virtual step budget
    Slice(u32),
}

impl HostOp {
    pub fn to_json(&self) -> J {
        match self {
            HostOp::Continue => json!("continue"),
            HostOp::ContinueMax => json!("continue_max"),
            HostOp::Choose(i) => json!({"choose": i}),
            HostOp::ChooseMod(i) => json!({"choose_mod": i}),
            HostOp::ChoosePath { path, reset, args } => json!({"choose_path": path, "reset": reset,
                "args": args.iter().map(|a| a.to_json()).collect::<Vec<_>>()}),
            HostOp::SwitchFlow(n) => json!({"switch_flow": n}),
            HostOp::SwitchDefault => json!("switch_default"),
            HostOp::RemoveFlow(n) => json!({"remove_flow": n}),
            HostOp::Save => json!("save"),
            HostOp::LoadLast => json!("load_last"),
            HostOp::Reset => json!("reset"),
            HostOp::SetVar(n, a) => json!({"set_var": n, "value": a.to_json()}),
            HostOp::Observe { obs, var } => json!({"observe": var, "obs": obs}),
            HostOp::Unobserve { obs, var } => json!({"unobserve": var, "obs": obs}),
            HostOp::Eval { func, args } => json!({"eval": func,
                "args": args.iter().map(|a| a.to_json()).collect::<Vec<_>>()}),
            HostOp::Bind { name, safe } => json!({"bind": name, "safe": safe}),
            HostOp::Unbind(n) => json!({"unbind": n}),
            HostOp::Slice(b) => json!({"slice": b}),
        }
    }
    pub fn from_json(j: &J) -> Option<HostOp> {
        if let Some(s) = j.as_str() {
            return Some(match s {
                "continue" => HostOp::Continue,
                "continue_max" => HostOp::ContinueMax,
                "switch_default" => HostOp::SwitchDefault,
                "save" => HostOp::Save,
                "load_last" => HostOp::LoadLast,
                "reset" => HostOp::Reset,
                _ => return None,
            });
        }
        let o = j.as_object()?;
        let args = |o: &serde_json::Map<String, J>| -> Vec<Arg> {
            o.get("args")
                .and_then(|a| a.as_array())
                .map(|a| a.iter().filter_map(Arg::from_json).collect())
                .unwrap_or_default()
        };
        if let Some(v) = o.get("choose") {
            return Some(HostOp::Choose(v.as_u64()? as usize));
        }
        if let Some(v) = o.get("choose_mod") {
            return Some(HostOp::ChooseMod(v.as_u64()? as usize));
        }
        if let Some(v) = o.get("choose_path") {
            return Some(HostOp::ChoosePath {
                path: v.as_str()?.to_string(),
                reset: o.get("reset")?.as_bool()?,
                args: args(o),
            });
        }
        if let Some(v) = o.get("switch_flow") {
            return Some(HostOp::SwitchFlow(v.as_str()?.to_string()));
        }
        if let Some(v) = o.get("remove_flow") {
            return Some(HostOp::RemoveFlow(v.as_str()?.to_string()));
        }
        if let Some(v) = o.get("set_var") {
            return Some(HostOp::SetVar(
                v.as_str()?.to_string(),
                Arg::from_json(o.get("value")?)?,
            ));
        }
        if let Some(v) = o.get("observe") {
            return Some(HostOp::Observe {
                obs: o.get("obs")?.as_u64()? as usize,
                var: v.as_str()?.to_string(),
            });
        }
        if let Some(v) = o.get("unobserve") {
            return Some(HostOp::Unobserve {
                obs: o.get("obs")?.as_u64()? as usize,
                var: v.as_str().map(|s| s.to_string()),
            });
        }
        if let Some(v) = o.get("eval") {
            return Some(HostOp::Eval {
                func: v.as_str()?.to_string(),
                args: args(o),
            });
        }
        if let Some(v) = o.get("bind") {
            return Some(HostOp::Bind {
                name: v.as_str()?.to_string(),
                safe: o.get("safe")?.as_bool()?,
            });
        }
        if let Some(v) = o.get("unbind") {
            return Some(HostOp::Unbind(v.as_str()?.to_string()));
        }
        if let Some(v) = o.get("slice") {
            return Some(HostOp::Slice(v.as_u64()? as u32));
        }
        None
    }
}

pub fn ops_to_json(ops: &[HostOp]) -> J {
    J::Array(ops.iter().map(|o| o.to_json()).collect())
}
pub fn ops_from_json(j: &J) -> Vec<HostOp> {
    j.as_array()
        .map(|a| a.iter().filter_map(HostOp::from_json).collect())
        .unwrap_or_default()
}

/// How a Host is set up. Everything the host registers is part of the scenario.
#[derive(Debug, Clone)]
pub struct HostCfg {
    pub seed: i32,
    pub fuel: u64,
    pub handler: bool,
    /// bind every external the story references, with this look-ahead safety
    pub bind_externals: Option<bool>,
    pub allow_fallbacks: bool,
}

impl Default for HostCfg {
    fn default() -> Self {
        HostCfg {
            seed: 42,
            fuel: DEFAULT_FUEL,
            handler: false,
            bind_externals: Some(true),
            allow_fallbacks: false,
        }
    }
}

pub struct Host {
    pub story: Story,
    pub log: Log,
    pub trace: Vec<Obs>,
    pub lines: Rc<Cell<usize>>,
    pub observers: Vec<Rc<RefCell<dyn VariableObserver>>>,
    pub last_save: Option<String>,
    pub cfg: HostCfg,
    pub meta: Rc<Meta>,
    /// externals currently bound (as far as the host's own calls tell)
    pub bound: std::collections::BTreeSet<String>,
    /// look-ahead safety each of them was last bound with
    pub bound_safe: std::collections::BTreeMap<String, bool>,
}

pub const N_OBSERVERS: usize = 3;

impl Host {
    pub fn new(json_text: &str, meta: Rc<Meta>, cfg: &HostCfg) -> Result<Host, StoryError> {
        // bound the global declarations too (a story document may loop in them)
        Story::verif_set_construction_fuel(Some(cfg.fuel));
        let story = Story::new(json_text);
        Story::verif_set_construction_fuel(None);
        let mut story = story?;
        story.verif_set_story_seed(cfg.seed);
        story.verif_set_fuel(Some(cfg.fuel));
        let log: Log = Rc::new(RefCell::new(vec![]));
        let lines = Rc::new(Cell::new(0usize));
        if cfg.handler {
            story.set_error_handler(Rc::new(RefCell::new(Handler { log: log.clone() })));
        }
        story.set_allow_external_function_fallbacks(cfg.allow_fallbacks);
        let mut bound = std::collections::BTreeSet::new();
        let mut bound_safe = std::collections::BTreeMap::new();
        if let Some(safe) = cfg.bind_externals {
            for (name, _) in &meta.externals {
                bound.insert(name.clone());
                bound_safe.insert(name.clone(), safe);
                let _ = story.bind_external_function(
                    name,
                    Rc::new(RefCell::new(Ext {
                        log: log.clone(),
                        lines: lines.clone(),
                        returns_value: true,
                    })),
                    safe,
                );
            }
        }
        let mut observers: Vec<Rc<RefCell<dyn VariableObserver>>> = vec![];
        for id in 0..N_OBSERVERS {
            observers.push(Rc::new(RefCell::new(Observer {
                id,
                log: log.clone(),
            })));
        }
        Ok(Host {
            story,
            log,
            trace: vec![],
            lines,
            observers,
            last_save: None,
            cfg: cfg.clone(),
            meta,
            bound,
            bound_safe,
        })
    }

    fn drain_log(&mut self) {
        let mut l = self.log.borrow_mut();
        // The order in which one continue notifies *different* variables is the iteration
        // order of a hash map and is not part of any property: sort each run of
        // consecutive notifications.
        let mut i = 0;
        while i < l.len() {
            if matches!(l[i], Obs::Notify { .. }) {
                let mut j = i;
                while j < l.len() && matches!(l[j], Obs::Notify { .. }) {
                    j += 1;
                }
                l[i..j].sort_by_key(|o| o.show());
                i = j;
            } else {
                i += 1;
            }
        }
        self.trace.append(&mut l);
    }

    fn push_err(&mut self, e: &StoryError) {
        self.trace.push(err_obs(e));
    }

    /// After a continue: record the line (or error) and, when the story stopped, the
    /// choices or the end.
    fn after_continue(&mut self, r: Result<String, StoryError>) {
        match r {
            Ok(text) => {
                let tags = self.story.get_current_tags().unwrap_or_default();
                self.drain_log_before_line(text, tags);
            }
            Err(e) => {
                self.drain_log();
                self.push_err(&e);
            }
        }
        self.record_stop();
    }

    fn drain_log_before_line(&mut self, text: String, tags: Vec<String>) {
        // callbacks fired during the continue come first, then the line itself
        self.drain_log();
        self.lines.set(self.lines.get() + 1);
        self.trace.push(Obs::Line { text, tags });
    }

    fn record_stop(&mut self) {
        if !self.story.can_continue() {
            let ch = self.story.get_current_choices();
            if ch.is_empty() {
                self.trace.push(Obs::End);
            } else {
                self.trace.push(Obs::Choices(
                    ch.iter().map(|c| (c.text.clone(), c.tags.clone())).collect(),
                ));
            }
        }
    }

    /// Apply one host operation; everything observable is appended to `self.trace`.
    /// the value a host passes for an argument; `Arg::G` reads the named global now
    pub fn arg_value(&self, a: &Arg) -> ValueType {
        match a {
            Arg::G(name) => self.story.get_variable(name).unwrap_or(ValueType::Int(0)),
            _ => a.to_value(),
        }
    }

    pub fn apply(&mut self, op: &HostOp) {
        match op {
            HostOp::Continue => {
                if !self.story.can_continue() {
                    self.trace.push(Obs::Skip("continue".into()));
                    return;
                }
                let r = self.story.cont();
                self.after_continue(r);
            }
            HostOp::ContinueMax => {
                let mut n = 0;
                while self.story.can_continue() && n < 200 {
                    let r = self.story.cont();
                    let failed = r.is_err();
                    self.after_continue(r);
                    if failed {
                        break;
                    }
                    n += 1;
                }
            }
            HostOp::Choose(i) => {
                let r = self.story.choose_choice_index(*i);
                self.drain_log();
                match r {
                    Ok(()) => self.trace.push(Obs::Ret(format!("chose {i}"))),
                    Err(e) => self.push_err(&e),
                }
            }
            HostOp::ChooseMod(i) => {
                if self.story.can_continue() {
                    self.trace.push(Obs::Skip("choose".into()));
                    return;
                }
                let n = self.story.get_current_choices().len();
                if n == 0 {
                    self.trace.push(Obs::Skip("choose".into()));
                    return;
                }
                let k = i % n;
                let r = self.story.choose_choice_index(k);
                self.drain_log();
                match r {
                    Ok(()) => self.trace.push(Obs::Ret(format!("chose {k}"))),
                    Err(e) => self.push_err(&e),
                }
            }
            HostOp::ChoosePath { path, reset, args } => {
                let a: Vec<ValueType> = args.iter().map(|a| self.arg_value(a)).collect();
                let r = self.story.choose_path_string(
                    path,
                    *reset,
                    if a.is_empty() { None } else { Some(&a) },
                );
                self.drain_log();
                match r {
                    Ok(()) => self.trace.push(Obs::Ret(format!("path {path}"))),
                    Err(e) => self.push_err(&e),
                }
            }
            HostOp::SwitchFlow(n) => {
                let r = self.story.switch_flow(n);
                self.drain_log();
                match r {
                    Ok(()) => self.trace.push(Obs::Ret(format!("flow {n}"))),
                    Err(e) => self.push_err(&e),
                }
            }
            HostOp::SwitchDefault => {
                self.story.switch_to_default_flow();
                self.drain_log();
                self.trace.push(Obs::Ret("flow default".into()));
            }
            HostOp::RemoveFlow(n) => {
                let r = self.story.remove_flow(n);
                self.drain_log();
                match r {
                    Ok(()) => self.trace.push(Obs::Ret(format!("removed {n}"))),
                    Err(e) => self.push_err(&e),
                }
            }
            HostOp::Save => match self.story.save_state() {
                Ok(s) => {
                    self.last_save = Some(s);
                    self.trace.push(Obs::Ret("saved".into()));
                }
                Err(e) => self.push_err(&e),
            },
            HostOp::LoadLast => {
                if let Some(s) = self.last_save.clone() {
                    let r = self.story.load_state(&s);
                    self.drain_log();
                    match r {
                        Ok(()) => self.trace.push(Obs::Ret("loaded".into())),
                        Err(e) => self.push_err(&e),
                    }
                } else {
                    self.trace.push(Obs::Skip("load".into()));
                }
            }
            HostOp::Reset => {
                let r = self.story.reset_state();
                if r.is_ok() {
                    self.story.verif_set_story_seed(self.cfg.seed);
                    self.lines.set(0);
                }
                self.drain_log();
                match r {
                    Ok(()) => self.trace.push(Obs::Ret("reset".into())),
                    Err(e) => self.push_err(&e),
                }
            }
            HostOp::SetVar(n, a) => {
                let v = self.arg_value(a);
                let r = self.story.set_variable(n, &v);
                self.drain_log();
                match r {
                    Ok(()) => self.trace.push(Obs::Ret(format!("set {n}"))),
                    Err(e) => self.push_err(&e),
                }
            }
            HostOp::Observe { obs, var } => {
                let o = self.observers[*obs % N_OBSERVERS].clone();
                let r = self.story.observe_variable(var, o);
                self.drain_log();
                match r {
                    Ok(()) => self.trace.push(Obs::Ret(format!("observe {obs} {var}"))),
                    Err(e) => self.push_err(&e),
                }
            }
            HostOp::Unobserve { obs, var } => {
                let o = self.observers[*obs % N_OBSERVERS].clone();
                let r = self.story.remove_variable_observer(&o, var.as_deref());
                self.drain_log();
                match r {
                    Ok(()) => self.trace.push(Obs::Ret(format!("unobserve {obs} {var:?}"))),
                    Err(e) => self.push_err(&e),
                }
            }
            HostOp::Eval { func, args } => {
                let a: Vec<ValueType> = args.iter().map(|a| self.arg_value(a)).collect();
                let mut out = String::new();
                let r = self.story.evaluate_function(
                    func,
                    if a.is_empty() { None } else { Some(&a) },
                    &mut out,
                );
                self.drain_log();
                match r {
                    Ok(v) => self
                        .trace
                        .push(Obs::Ret(format!("eval {func} -> {} {:?}", render_opt_value(&v), out))),
                    Err(e) => self.push_err(&e),
                }
            }
            HostOp::Bind { name, safe } => {
                let r = self.story.bind_external_function(
                    name,
                    Rc::new(RefCell::new(Ext {
                        log: self.log.clone(),
                        lines: self.lines.clone(),
                        returns_value: true,
                    })),
                    *safe,
                );
                match r {
                    Ok(()) => {
                        self.bound.insert(name.clone());
                        self.bound_safe.insert(name.clone(), *safe);
                        self.trace.push(Obs::Ret(format!("bound {name}")))
                    }
                    Err(e) => self.push_err(&e),
                }
            }
            HostOp::Unbind(name) => {
                let r = self.story.unbind_external_function(name);
                match r {
                    Ok(()) => {
                        self.bound.remove(name);
                        self.trace.push(Obs::Ret(format!("unbound {name}")))
                    }
                    Err(e) => self.push_err(&e),
                }
            }
            HostOp::Slice(b) => {
                if !self.story.can_continue() && !self.story.verif_async_active() {
                    self.trace.push(Obs::Skip("slice".into()));
                    return;
                }
                self.story.verif_set_async_step_budget(Some(*b));
                let r = self.story.continue_async(1.0e9);
                self.story.verif_set_async_step_budget(None);
                match r {
                    Ok(()) => {
                        if !self.story.verif_async_active() {
                            let text = self.story.get_current_text();
                            self.after_continue(text);
                        } else {
                            self.drain_log();
                        }
                    }
                    Err(e) => {
                        self.drain_log();
                        self.push_err(&e);
                        if !self.story.verif_async_active() {
                            self.record_stop();
                        }
                    }
                }
            }
        }
    }

    pub fn run(&mut self, ops: &[HostOp]) {
        for op in ops {
            self.apply(op);
        }
    }

    /// What a host can poll without changing anything.
    pub fn view(&mut self) -> View {
        let can_continue = self.story.can_continue();
        let text = self.story.get_current_text().ok();
        let tags = self.story.get_current_tags().ok();
        let choices = self
            .story
            .get_current_choices()
            .iter()
            .map(|c| (c.text.clone(), c.tags.clone()))
            .collect();
        let mut globals = BTreeMap::new();
        for g in &self.meta.globals {
            globals.insert(g.clone(), render_opt_value(&self.story.get_variable(g)));
        }
        let mut visits = BTreeMap::new();
        for p in &self.meta.count_paths {
            if let Ok(n) = self.story.get_visit_count_at_path_string(p) {
                if n != 0 {
                    visits.insert(p.clone(), n);
                }
            }
        }
        View {
            can_continue,
            text,
            tags,
            choices,
            errors: self.story.get_current_errors().to_vec(),
            warnings: self.story.get_current_warnings().to_vec(),
            globals,
            visits,
        }
    }

    pub fn canonical_save(&self) -> Result<String, String> {
        match self.story.save_state() {
            Ok(s) => Ok(canonical_json_text(&s)),
            Err(e) => Err(e.to_string()),
        }
    }

    pub fn fuel_exhausted(&self) -> bool {
        self.story.verif_fuel_left() == Some(0)
    }
}

#[derive(Debug, Clone, PartialEq)]
pub struct View {
    pub can_continue: bool,
    pub text: Option<String>,
    pub tags: Option<Vec<String>>,
    pub choices: Vec<(String, Vec<String>)>,
    pub errors: Vec<String>,
    pub warnings: Vec<String>,
    pub globals: BTreeMap<String, String>,
    pub visits: BTreeMap<String, i32>,
}

impl View {
    /// same view with diagnostic message texts blanked (their number is kept)
    pub fn without_msgs(&self) -> View {
        let mut v = self.clone();
        for e in v.errors.iter_mut() {
            e.clear();
        }
        for w in v.warnings.iter_mut() {
            w.clear();
        }
        v
    }
    /// same view without pending diagnostics (they are not part of a save)
    pub fn without_diagnostics(&self) -> View {
        let mut v = self.clone();
        v.errors.clear();
        v.warnings.clear();
        v
    }
    pub fn diff(&self, other: &View) -> Option<String> {
        if self.can_continue != other.can_continue {
            return Some(format!(
                "can_continue {} vs {}",
                self.can_continue, other.can_continue
            ));
        }
        if self.text != other.text {
            return Some(format!("text {:?} vs {:?}", self.text, other.text));
        }
        if self.tags != other.tags {
            return Some(format!("tags {:?} vs {:?}", self.tags, other.tags));
        }
        if self.choices != other.choices {
            return Some(format!("choices {:?} vs {:?}", self.choices, other.choices));
        }
        if self.errors != other.errors {
            return Some(format!("errors {:?} vs {:?}", self.errors, other.errors));
        }
        if self.warnings != other.warnings {
            return Some(format!(
                "warnings {:?} vs {:?}",
                self.warnings, other.warnings
            ));
        }
        if self.globals != other.globals {
            for (k, v) in &self.globals {
                if other.globals.get(k) != Some(v) {
                    return Some(format!("global {k}: {v} vs {:?}", other.globals.get(k)));
                }
            }
            return Some("globals differ".into());
        }
        if self.visits != other.visits {
            let keys: std::collections::BTreeSet<_> =
                self.visits.keys().chain(other.visits.keys()).collect();
            for k in keys {
                if self.visits.get(k) != other.visits.get(k) {
                    return Some(format!(
                        "visits {k}: {:?} vs {:?}",
                        self.visits.get(k),
                        other.visits.get(k)
                    ));
                }
            }
        }
        None
    }
}

// ------------------------------------------------------------------------------------
// canonical JSON (for "equivalent saved state")

pub fn canonicalize(j: &J, under_origins: bool) -> J {
    match j {
        J::Object(o) => {
            let mut keys: Vec<&String> = o.keys().collect();
            keys.sort();
            let mut m = serde_json::Map::new();
            // a pending choice's "index" is a display cache that get_current_choices()
            // refreshes and no loader reads back: not part of the state
            let is_choice = o.contains_key("originalChoicePath") && o.contains_key("targetPath");
            for k in keys {
                if is_choice && k == "index" {
                    continue;
                }
                m.insert(k.clone(), canonicalize(&o[k], k == "origins"));
            }
            J::Object(m)
        }
        J::Array(a) => {
            let mut v: Vec<J> = a.iter().map(|x| canonicalize(x, false)).collect();
            if under_origins {
                v.sort_by_key(|x| x.to_string());
                v.dedup();
            }
            J::Array(v)
        }
        x => x.clone(),
    }
}

pub fn canonical_json_text(s: &str) -> String {
    match serde_json::from_str::<J>(s) {
        Ok(j) => canonicalize(&j, false).to_string(),
        Err(_) => format!("<<not json>>{s}"),
    }
}

pub fn first_diff(a: &[Obs], b: &[Obs]) -> Option<(usize, String, String)> {
    let n = a.len().max(b.len());
    for i in 0..n {
        let x = a.get(i);
        let y = b.get(i);
        if x != y {
            return Some((
                i,
                x.map(|o| o.show()).unwrap_or("<nothing>".into()),
                y.map(|o| o.show()).unwrap_or("<nothing>".into()),
            ));
        }
    }
    None
}

pub fn fnv(s: &str) -> u64 {
    let mut h: u64 = 0xcbf29ce484222325;
    for b in s.bytes() {
        h ^= b as u64;
        h = h.wrapping_mul(0x100000001b3);
    }
    h
}
