//! C06 — the compiler is total and deterministic, and its output is well formed.
use crate::common::*;
use crate::engine::*;
use crate::mutate::*;
use crate::pgen::{Profile, Tape};
use crate::resolve::check_document;
use crate::rt::*;
use bladeink::story::Story;
use serde_json::{Value as J, json};
use std::collections::BTreeSet;

const RULE: &str = "inputs: (1) character/line/token level mutations of the corpus sources, of generated grammar programs \
and of idiom programs: byte flips, inserted/deleted/duplicated characters (non-ASCII, combining, non-BMP, CR, NUL, \
BOM, brackets), deleted/duplicated/swapped lines, splices of two sources, runs of opening brackets (1..300), very \
long lines, INCLUDE of unknown files, one identifier renamed to an unknown name; (2) token soup over Ink's \
punctuation, keywords, identifiers and literals; (3) the unmodified corpus, generated and idiom programs. \
Oracles, evaluated in a worker process under a watchdog: the compiler returns (no panic); an Err that names a \
line names a line between 1 and the number of lines of the input; Ok(json) parses as JSON, loads with \
Story::new, and an independent static resolver finds that every divert, tunnel, function call, thread, choice \
target, read-count and divert-target value resolves exactly to existing content, every variable reference and \
assignment names a declared global, list item or temporary of its flow, and every external call names a \
declared EXTERNAL; compiling the same text twice gives identical bytes. Before judging the compiler the \
resolver must accept every reference-compiled corpus document. Non-trivial = input that is not byte-identical \
to a corpus file and either compiles (well-formedness exercised) or fails with a line; distinct = input hash.";

fn declared_externals(src: &str) -> BTreeSet<String> {
    let mut s = BTreeSet::new();
    for line in src.lines() {
        let l = line.trim_start();
        if let Some(rest) = l.strip_prefix("EXTERNAL") {
            let name: String = rest.trim_start().chars().take_while(|c| c.is_alphanumeric() || *c == '_').collect();
            if !name.is_empty() {
                s.insert(name);
            }
        }
    }
    s
}

static SURVEY: std::sync::Mutex<std::collections::BTreeMap<String, (usize, String, String)>> = std::sync::Mutex::new(std::collections::BTreeMap::new());

/// development aid (VERIF_SURVEY=1): keep going after a failure and list every distinct key
pub fn exec(case: &J, acc: &mut Acc) -> Result<(), Fail> {
    let r = exec_inner(case, acc);
    if std::env::var("VERIF_SURVEY").is_ok() {
        if let Err(f) = &r {
            let mut m = SURVEY.lock().unwrap();
            let input = case["input"].as_str().unwrap_or("").to_string();
            let e = m.entry(f.key.clone()).or_insert((0, input.clone(), f.msg.clone()));
            e.0 += 1;
            if input.len() < e.1.len() {
                e.1 = input;
                e.2 = f.msg.clone();
            }
            return Ok(());
        }
    }
    r
}

pub fn survey_dump() {
    let m = SURVEY.lock().unwrap();
    for (k, (n, input, msg)) in m.iter() {
        eprintln!("SURVEY {k} x{n}\n   msg: {msg}\n   input: {:?}", input.chars().take(400).collect::<String>());
    }
}

fn exec_inner(case: &J, acc: &mut Acc) -> Result<(), Fail> {
    inflight(case);
    let src = case["input"].as_str().unwrap_or("");
    let pristine = case["pristine"].as_bool().unwrap_or(false);
    acc.eval();
    let compile_once = || {
        guard(|| {
            bladeink_compiler::Compiler::new().compile_with_file_handler(src, |name| {
                Err(bladeink_compiler::CompilerError::invalid_source(format!("no such file: {name}")))
            })
        })
    };
    let r1 = match compile_once() {
        Err(p) => {
            return Err(Fail::violation(
                format!("panic@{}", p.site()),
                format!("the compiler panicked: {} ({}) [{}]", p.msg, p.site(), case["mutation"]),
                case.clone(),
            ));
        }
        Ok(r) => r,
    };
    let nlines = src.split('\n').count().max(1);
    match r1 {
        Err(e) => {
            acc.class("compile:error");
            let line = match &e {
                bladeink_compiler::CompilerError::InvalidSource { line, .. } => *line,
                bladeink_compiler::CompilerError::UnsupportedFeature { line, .. } => *line,
            };
            if let Some(l) = line {
                acc.class("compile:error_with_line");
                if !pristine {
                    acc.nontrivial(fnv(src));
                }
                if l < 1 || l > nlines {
                    return Err(Fail::violation(
                        "error-line-out-of-range",
                        format!("the compiler reports line {l} for an input of {nlines} lines: {e}"),
                        case.clone(),
                    ));
                }
            }
            Ok(())
        }
        Ok(json_text) => {
            acc.class("compile:ok");
            if !pristine {
                acc.nontrivial(fnv(src));
            }
            // deterministic
            // (several repetitions: a dependence on hash-map iteration order shows up only in
            // some of them, and the shrunk case must fail again when it is re-executed)
            for _ in 0..5 {
                match compile_once() {
                    Ok(Ok(j2)) if j2 == json_text => {}
                    Ok(Ok(_)) => {
                        return Err(Fail::violation("compiler-nondeterministic", "compiling the same text again gave different output".to_string(), case.clone()));
                    }
                    _ => {
                        return Err(Fail::violation("compiler-nondeterministic", "a further compilation of the same text failed".to_string(), case.clone()));
                    }
                }
            }
            let doc: J = match serde_json::from_str(&json_text) {
                Ok(d) => d,
                Err(e) => {
                    return Err(Fail::violation("output-not-json", format!("the compiler's output is not JSON: {e}"), case.clone()));
                }
            };
            // loads
            let loaded = guard(|| {
                Story::verif_set_construction_fuel(Some(5000));
                let r = Story::new(&json_text).map(|_| ()).map_err(|e| e.to_string());
                Story::verif_set_construction_fuel(None);
                r
            });
            match loaded {
                Err(p) => {
                    return Err(Fail::violation(format!("panic@{}", p.site()), format!("loading the compiler's output panicked: {}", p.msg), case.clone()));
                }
                Ok(Err(e)) if !e.contains("VERIF_FUEL") => {
                    return Err(Fail::violation("output-does-not-load", format!("the compiled story does not load: {e}"), case.clone()));
                }
                _ => {}
            }
            // resolves
            let ext = declared_externals(src);
            let complaints = check_document(&doc, Some(&ext));
            if let Some(c) = complaints.first() {
                let kind = if c.what.contains("does not resolve") || c.what.contains("not a container") {
                    "unresolved-target"
                } else if c.what.contains("EXTERNAL") {
                    "undeclared-external"
                } else {
                    "undeclared-variable"
                };
                return Err(Fail::violation(
                    kind,
                    format!("compiled story is not well formed ({} complaint(s)); first: at '{}': {}", complaints.len(), c.at, c.what),
                    case.clone(),
                ));
            }
            Ok(())
        }
    }
}

fn run_legs(env: &Env, rep: &mut Report) {
    // the resolver must accept the reference-compiled corpus before it may judge the compiler
    let mut bad = 0;
    for p in corpus_jsons() {
        if let Ok(text) = std::fs::read_to_string(&p) {
            if let Ok(doc) = serde_json::from_str::<J>(strip_bom(&text)) {
                let c = check_document(&doc, None);
                if let Some(first) = c.first() {
                    bad += 1;
                    if bad <= 3 {
                        rep.health_errors.push(format!("resolver self-check: {} : at '{}': {}", p.display(), first.at, first.what));
                    }
                }
            }
        }
        rep.acc.classn("resolver_selfcheck_documents", 1);
    }
    if bad > 0 {
        return;
    }
    let sources: Vec<String> = corpus_sources()
        .iter()
        .filter_map(|p| std::fs::read_to_string(p).ok())
        .map(|s| strip_bom(&s).to_string())
        .collect();
    // pristine corpus (INCLUDE-free ones must compile cleanly through all oracles)
    let list: Vec<J> = sources
        .iter()
        .filter(|s| !s.contains("INCLUDE"))
        .map(|s| json!({"input": s, "mutation": "none", "pristine": true}))
        .collect();
    let r = run_list(env, &list, |c, acc| exec(c, acc));
    rep.absorb(r);
    let ns = sources.len();
    if ns == 0 {
        rep.health_errors.push("no corpus sources".into());
        return;
    }
    // mutated corpus
    let n1 = env.cases(5000, 250000);
    let r = run_cases(
        env,
        1,
        n1,
        || ((0..ns, 0..ns), proptest::collection::vec(proptest::num::u16::ANY, 0..40)),
        |((a, b), tape): &((usize, usize), Vec<u16>), acc: &mut Acc| {
            let mut t = Tape::new(tape);
            let (input, what) = mutate_source_text(&sources[*a], &sources[*b], &mut t);
            let case = json!({"input": input, "mutation": what});
            acc.sample(|| json!({"mutation": what, "input_head": input.chars().take(300).collect::<String>()}));
            exec(&case, acc)
        },
    );
    rep.absorb(r);
    // generated programs, pristine and mutated
    let prof = Profile::rich();
    let n2 = env.cases(4000, 200000);
    let r = run_cases(
        env,
        2,
        n2,
        || case_strategy(1500, 40),
        |gc: &GenCase, acc: &mut Acc| {
            let src = if gc.prog.first().map(|v| v % 4 == 3).unwrap_or(false) {
                let mut t = Tape::new(&gc.prog[1..]);
                crate::idioms::gen_idiom_program(&mut t).0
            } else {
                crate::pgen::gen_program(&gc.prog, &prof).to_ink()
            };
            let case = json!({"input": src, "mutation": "none (generated program)"});
            exec(&case, acc)?;
            let mut t = Tape::new(&gc.hist);
            if !gc.hist.is_empty() {
                let (input, what) = mutate_source_text(&src, &src, &mut t);
                let case = json!({"input": input, "mutation": what});
                exec(&case, acc)?;
            }
            Ok(())
        },
    );
    rep.absorb(r);
    // token soup
    let n3 = env.cases(6000, 300000);
    let r = run_cases(
        env,
        3,
        n3,
        || proptest::collection::vec(proptest::num::u16::ANY, 0..160),
        |tape: &Vec<u16>, acc: &mut Acc| {
            let mut t = Tape::new(tape);
            let input = token_soup(&mut t);
            let case = json!({"input": input, "mutation": "token-soup"});
            exec(&case, acc)
        },
    );
    rep.absorb(r);
}

pub fn run(env: &Env) -> i32 {
    let mut rep = Report::new("exploration", RULE);
    rep.assumptions = vec![
        "the static resolver (harness/src/resolve.rs) is the trusted base for well-formedness; it is validated on every run against all reference-compiled corpus documents".into(),
        "'never hangs' is decided for work done: a worker that exceeds its wall-clock budget is reported as inconclusive (exit 2) with the input saved, never as a violation".into(),
        "INCLUDE is resolved by a handler that knows no files".into(),
    ];
    if env.child {
        if let Some(p) = &env.replay {
            if let Ok((_, case)) = load_replay_case(p) {
                let mut acc = Acc::default();
                if let Err(f) = exec(&case, &mut acc) {
                    rep.fails.push(f);
                }
                rep.acc.merge(acc);
            }
            return finish(env, rep);
        }
        run_legs(env, &mut rep);
        survey_dump();
        // health errors travel as harness fails
        for h in rep.health_errors.drain(..) {
            rep.fails.push(Fail::harness(h));
        }
        return finish(env, rep);
    }
    if let Some(p) = &env.replay {
        match run_child_isolated(env, "dbg/debug", &["--replay", p.to_str().unwrap_or("")]) {
            Ok(r) => rep.absorb(r),
            Err(e) => rep.health_errors.push(e),
        }
        return finish(env, rep);
    }
    for (path, key, _case) in saved_cases(env) {
        match run_child_isolated(env, "dbg/debug", &["--replay", path.to_str().unwrap_or("")]) {
            Ok(r) => {
                rep.acc.classn("replayed_saved_cases", 1);
                for f in r.fails {
                    if let Some(k) = env.known_for(&f.key).or(env.known_for(&key)).cloned() {
                        if !rep.known_replayed.iter().any(|(kk, _)| kk.key == k.key) {
                            rep.known_replayed.push((k, true));
                        }
                    } else {
                        rep.fails.push(f);
                    }
                }
            }
            Err(e) => rep.health_errors.push(e),
        }
    }
    match run_child_isolated(env, "dbg/debug", &[]) {
        Ok(r) => rep.absorb(r),
        Err(e) => rep.health_errors.push(e),
    }
    // thorough tier: coverage-guided campaigns on the byte-level surface (libFuzzer), once
    // seeded with the small corpus sources and once from an empty corpus
    if env.tier == Tier::Thorough && rep.fails.is_empty() {
        match crate::fuzz::build(env) {
            Err(e) => rep.health_errors.push(e),
            Ok(()) => {
                let runs = ((200_000.0 * env.scale) as u64).max(1000);
                let to_case = |b: &[u8]| json!({"input": String::from_utf8_lossy(b).to_string(), "pristine": false, "mutation": "libfuzzer"});
                for seeded in [true, false] {
                    let c = crate::fuzz::Campaign {
                        target: "compile",
                        runs,
                        max_len: 4096,
                        seeds: if seeded { crate::fuzz::small_files(&corpus_dir(), ".ink", 6000, 200) } else { vec![] },
                    };
                    let r = crate::fuzz::run(env, &c);
                    let mut c2 = c;
                    let label = if seeded { "compile" } else { "compile(empty corpus)" };
                    c2.target = label;
                    crate::fuzz::absorb(&mut rep, &c2, r, &to_case, &exec);
                }
            }
        }
    }
    finish(env, rep)
}
