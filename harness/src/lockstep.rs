//! Helpers for the lockstep-differential checks (C02, C03, C09, C10, C16, C17).
use crate::engine::Fail;
use crate::rt::*;
use serde_json::Value as J;
use std::rc::Rc;

pub struct Marked {
    pub trace: Vec<Obs>,
    /// marks[i] = trace length before op i; marks[n] = final length
    pub marks: Vec<usize>,
    /// save text taken before op i (None where save_state failed)
    pub saves: Vec<Option<String>>,
    pub last_saves: Vec<Option<String>>,
    pub lines: Vec<usize>,
    /// view before op i (only with_saves)
    pub views: Vec<View>,
    pub fuel_out: bool,
    pub final_view: View,
    pub final_save: Option<String>,
}

pub fn panic_fail(p: &PanicInfo, what: &str, case: &J) -> Fail {
    Fail::violation(
        format!("panic@{}", p.site()),
        format!("{what}: runtime panicked: {} ({})", p.msg, p.site()),
        case.clone(),
    )
}

/// Run `ops` on a fresh host, recording marks (and optionally a save before every op).
pub fn run_marked(
    json_text: &str,
    meta: &Rc<Meta>,
    cfg: &HostCfg,
    ops: &[HostOp],
    with_saves: bool,
) -> Result<Result<Marked, String>, PanicInfo> {
    guard(|| {
        let mut h = Host::new(json_text, meta.clone(), cfg).map_err(|e| e.to_string())?;
        let mut marks = vec![];
        let mut saves = vec![];
        let mut last_saves = vec![];
        let mut lines = vec![];
        let mut views = vec![];
        for op in ops {
            marks.push(h.trace.len());
            last_saves.push(h.last_save.clone());
            lines.push(h.lines.get());
            if with_saves {
                saves.push(h.story.save_state().ok());
                views.push(h.view());
            }
            h.apply(op);
        }
        marks.push(h.trace.len());
        last_saves.push(h.last_save.clone());
        lines.push(h.lines.get());
        if with_saves {
            saves.push(h.story.save_state().ok());
            views.push(h.view());
        }
        let final_view = h.view();
        let final_save = h.story.save_state().ok();
        Ok(Marked {
            trace: h.trace.clone(),
            marks,
            saves,
            last_saves,
            lines,
            views,
            fuel_out: h.fuel_exhausted(),
            final_view,
            final_save,
        })
    })
}

/// Tail used after a history to look a bit further: continue, choose, continue …
pub fn tail(variant: usize, steps: usize) -> Vec<HostOp> {
    let mut v = vec![];
    for k in 0..steps {
        v.push(HostOp::ContinueMax);
        v.push(HostOp::ChooseMod((variant >> (2 * k)) & 3));
    }
    v.push(HostOp::ContinueMax);
    v
}

pub fn strip_notify(t: &[Obs]) -> Vec<Obs> {
    t.iter()
        .filter(|o| !matches!(o, Obs::Notify { .. }))
        .cloned()
        .collect()
}

pub fn no_msgs(t: &[Obs]) -> Vec<Obs> {
    t.iter().map(|o| o.without_msg()).collect()
}

/// Structural facts about a save (for non-triviality rules), read by the harness's own parser.
#[derive(Debug, Default, Clone)]
pub struct SaveFacts {
    pub flows: usize,
    pub max_callstack_depth: usize,
    pub max_threads: usize,
    pub choice_threads: bool,
    pub pending_choices: usize,
    pub previous_random_nonzero: bool,
    pub list_vars: usize,
    pub temps: usize,
    pub eval_stack: usize,
    pub output_stream: usize,
}

pub fn save_facts(save: &str) -> SaveFacts {
    let mut f = SaveFacts::default();
    let Ok(j) = serde_json::from_str::<J>(save) else {
        return f;
    };
    if let Some(flows) = j["flows"].as_object() {
        f.flows = flows.len();
        for (_, fl) in flows {
            if let Some(threads) = fl["callstack"]["threads"].as_array() {
                f.max_threads = f.max_threads.max(threads.len());
                for t in threads {
                    if let Some(cs) = t["callstack"].as_array() {
                        f.max_callstack_depth = f.max_callstack_depth.max(cs.len());
                        for el in cs {
                            if let Some(tmp) = el["temp"].as_object() {
                                f.temps += tmp.len();
                            }
                        }
                    }
                }
            }
            if fl.get("choiceThreads").is_some() {
                f.choice_threads = true;
            }
            f.pending_choices += fl["currentChoices"].as_array().map(|a| a.len()).unwrap_or(0);
            f.output_stream += fl["outputStream"].as_array().map(|a| a.len()).unwrap_or(0);
        }
    }
    f.previous_random_nonzero = j["previousRandom"].as_i64().unwrap_or(0) != 0;
    if let Some(vars) = j["variablesState"].as_object() {
        f.list_vars = vars
            .values()
            .filter(|v| v.get("list").is_some())
            .count();
    }
    f.eval_stack = j["evalStack"].as_array().map(|a| a.len()).unwrap_or(0);
    f
}
