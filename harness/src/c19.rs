//! C19 — every piece of story content is addressable by its own path.
use crate::common::*;
use crate::engine::*;
use crate::pgen::Profile;
use crate::rt::*;
use bladeink::story::Story;
use serde_json::{Value as J, json};

const RULE: &str = "every runtime object (containers incl. named-only ones, values, diverts, choice points, commands) of \
every reference corpus story, of every corpus source compiled by this compiler, and of compiled generated \
programs (deep unnamed nesting, labels, stitches, functions), enumerated through the content-audit hook. Per \
object: looking its reported path up from the root returns that very object without approximation; \
parse(text(path)) == path with an equal hash. Per ordered pair (i, j) of distinct objects the two paths compare unequal (each denotes its own object), and (all pairs for \
stories < 120 objects, otherwise pairs sampled by a tape, biased to neighbours): the relative path i->j \
round-trips through text (equal, still relative, equal hash), resolves from i to j without approximation, \
path(i) + relative == path(j), and the compact path string resolves to j. Play-level leg: along a generated walk of every document, after every step the save (which writes each frame's position as container path + index, the previous content object and the choices' source and target paths) is loaded into a fresh story and saved again: the two saves must be canonically equal. Non-trivial = object at depth >= 3 \
or reached through named-only content, or a pair whose relative path contains at least one '^'; distinct = \
hash(story, path[, path]).";

pub fn exec(case: &J, acc: &mut Acc) -> Result<(), Fail> {
    inflight(case);
    let (json_text, _meta) = case_story(case)?;
    let pair_tape: Vec<u16> = case["pairs"]
        .as_array()
        .map(|a| a.iter().filter_map(|x| x.as_u64().map(|v| v as u16)).collect())
        .unwrap_or_default();
    let label = case["label"].as_str().unwrap_or("story").to_string();
    let r = guard(|| {
        let story = Story::new(&json_text).map_err(|e| e.to_string())?;
        let audit = story.verif_audit();
        let n = audit.len();
        let mut pairs: Vec<(usize, usize)> = vec![];
        if n < 120 {
            for i in 0..n {
                for j in 0..n {
                    if i != j {
                        pairs.push((i, j));
                    }
                }
            }
        } else {
            let mut t = crate::pgen::Tape::new(&pair_tape);
            let want = 3000.min(pair_tape.len() / 2 + 400);
            for k in 0..want {
                let i = if t.exhausted() { (k * 7919) % n } else { t.pick(n) };
                let j = if t.chance(1, 2) {
                    // a neighbour
                    (i + 1 + t.pick(40)) % n
                } else if t.exhausted() {
                    (k * 104729 + 13) % n
                } else {
                    t.pick(n)
                };
                if i != j {
                    pairs.push((i, j));
                }
            }
        }
        let rels = story.verif_relative_probes(&pairs);
        Ok::<_, String>((audit, pairs, rels))
    });
    let (audit, pairs, rels) = match r {
        Err(p) => {
            return Err(Fail::violation(
                format!("panic@{}", p.site()),
                format!("auditing {label} panicked: {} ({})", p.msg, p.site()),
                case.clone(),
            ));
        }
        Ok(Err(_)) => {
            acc.discard("story_new_failed");
            return Ok(());
        }
        Ok(Ok(x)) => x,
    };
    let shash = fnv(&json_text);
    for o in &audit {
        acc.eval();
        if o.depth >= 3 || o.named_only {
            acc.nontrivial(shash ^ fnv(&o.path));
        }
        let bad = if !o.resolves_to_self {
            Some(("path-does-not-resolve-to-object", "its reported path resolves to a different object"))
        } else if o.approximate {
            Some(("path-approximate", "its reported path only resolves approximately"))
        } else if !o.reparse_eq {
            Some(("path-text-roundtrip", "parse(text(path)) != path"))
        } else if !o.reparse_hash_eq {
            Some(("equal-paths-hash-differently", "parse(text(path)) == path but the hashes differ"))
        } else {
            None
        };
        if let Some((key, what)) = bad {
            return Err(Fail::violation(
                key,
                format!("{label}: object at '{}' ({}): {what}", o.path, o.detail.chars().take(80).collect::<String>()),
                case.clone(),
            ));
        }
    }
    for ((i, j), rel) in pairs.iter().zip(rels.iter()) {
        let Some(rel) = rel else { continue };
        acc.eval();
        if rel.relative_text.contains('^') {
            acc.nontrivial(shash ^ fnv(&format!("{}>{}", audit[*i].path, audit[*j].path)));
        }
        let bad = if rel.paths_equal {
            Some(("distinct-objects-equal-paths", "two different objects have paths that compare equal"))
        } else if !rel.reparse_eq {
            Some(("relative-path-text-roundtrip", "parse(text(rel)) != rel"))
        } else if !rel.reparse_relative_kept {
            Some(("relative-path-text-roundtrip", "a relative path parsed back as absolute"))
        } else if !rel.reparse_hash_eq {
            Some(("equal-paths-hash-differently", "parse(text(rel)) == rel but the hashes differ"))
        } else if !rel.resolves_to_target {
            Some(("relative-path-does-not-resolve", "resolving the relative path from i does not reach j"))
        } else if rel.is_relative && !rel.append_eq {
            Some(("relative-path-append", "path(i) + rel != path(j)"))
        } else if !rel.compact_resolves_to_target {
            Some(("compact-path-does-not-resolve", "the compact path string does not resolve to j"))
        } else {
            None
        };
        if let Some((key, what)) = bad {
            return Err(Fail::violation(
                key,
                format!(
                    "{label}: from '{}' to '{}': relative '{}' compact '{}': {what}",
                    audit[*i].path, audit[*j].path, rel.relative_text, rel.compact_text
                ),
                case.clone(),
            ));
        }
    }
    positions_leg(&json_text, &_meta, &pair_tape, &label, case, acc)
}

/// Play-level corollary: every position a save writes as a path (container path + index of each
/// call-stack frame, previous content object, choice source and target paths) denotes the same
/// position when read back: save -> fresh story -> load -> save is the same save, and both
/// stories then produce the same next line.
fn positions_leg(json_text: &str, meta: &std::rc::Rc<Meta>, tape: &[u16], label: &str, case: &J, acc: &mut Acc) -> Result<(), Fail> {
    let cfg = HostCfg { handler: true, allow_fallbacks: true, ..HostCfg::default() };
    let r = guard(|| -> Result<Option<(usize, String)>, String> {
        let mut t = crate::pgen::Tape::new(tape);
        let mut h = Host::new(json_text, meta.clone(), &cfg).map_err(|e| e.to_string())?;
        let mut checked = 0usize;
        for step in 0..24 {
            // (step 0 looks at the story before its first continue: a position in the root
            // container, whose own path is empty)
            if step == 0 {
            } else if h.story.can_continue() {
                h.apply(&HostOp::Continue);
            } else if !h.story.get_current_choices().is_empty() {
                h.apply(&HostOp::ChooseMod(t.pick(8)));
            } else {
                break;
            }
            if h.fuel_exhausted() {
                break;
            }
            let Ok(s1) = h.story.save_state() else { continue };
            // the position the host is told (get_current_path) names the element the save
            // points at: container path plus index of the current thread's top element
            if let Ok(sj) = serde_json::from_str::<J>(&s1) {
                let flow = sj["currentFlowName"].as_str().unwrap_or("DEFAULT_FLOW").to_string();
                let top = sj["flows"][&flow]["callstack"]["threads"]
                    .as_array()
                    .and_then(|t| t.last())
                    .and_then(|t| t["callstack"].as_array())
                    .and_then(|c| c.last())
                    .cloned();
                if let Some(top) = top {
                    let expected = top["cPath"].as_str().map(|cp| {
                        let idx = top["idx"].as_i64().unwrap_or(0);
                        if cp.is_empty() { format!("{idx}") } else { format!("{cp}.{idx}") }
                    });
                    let told = h.story.get_current_path();
                    if told != expected {
                        return Ok(Some((step, format!("get_current_path() says {told:?} while the save records the position {expected:?}"))));
                    }
                }
            }
            let mut f = Host::new(json_text, meta.clone(), &cfg).map_err(|e| e.to_string())?;
            if let Err(e) = f.story.load_state(&s1) {
                return Ok(Some((step, format!("the story's own save does not load: {e}"))));
            }
            let s2 = f.story.save_state().map_err(|e| e.to_string())?;
            let (c1, c2) = (canonical_json_text(&s1), canonical_json_text(&s2));
            checked += 1;
            if c1 != c2 {
                return Ok(Some((step, format!("a position written into the save reads back differently: {}", crate::c02::json_diff(&c1, &c2)))));
            }
        }
        let _ = checked;
        Ok(None)
    });
    match r {
        Err(p) => Err(crate::lockstep::panic_fail(&p, "position round trip", case)),
        Ok(Err(_)) => Ok(()),
        Ok(Ok(None)) => {
            acc.class("position_round_trips");
            Ok(())
        }
        Ok(Ok(Some((step, msg)))) => Err(Fail::violation("save-position-round-trip", format!("{label}: after step {step}: {msg}"), case.clone())),
    }
}

pub fn run(env: &Env) -> i32 {
    let mut rep = Report::new("exploration", RULE);
    rep.assumptions = vec![
        "objects and their facts are enumerated by the content-audit hook (verif_audit / verif_relative_probes), which only calls the runtime's own path primitives".into(),
        "the behavioural consequences of a position that reads back wrongly (later lines, counts) are decided by C02's lockstep comparison; here only the save -> load -> save round trip of the positions is checked".into(),
    ];
    if let Some(p) = &env.replay {
        return match load_replay_case(p) {
            Ok((_, case)) => {
                let mut acc = Acc::default();
                if let Err(f) = exec(&case, &mut acc) {
                    rep.fails.push(f);
                }
                rep.acc.merge(acc);
                finish(env, rep)
            }
            Err(e) => {
                println!("cannot load replay: {e}");
                2
            }
        };
    }
    replay_saved(env, &mut rep, &exec);
    // corpus: reference JSON and our own compilation of every source
    let mut cases: Vec<J> = vec![];
    for p in corpus_jsons() {
        cases.push(json!({"corpus_file": p.display().to_string(), "label": format!("reference {}", p.file_name().unwrap().to_string_lossy()), "pairs": crate::dev::dev_tape(env.seed + cases.len() as u64, 3000)}));
    }
    for p in corpus_sources() {
        if let Ok(j) = compile_file(&p) {
            cases.push(json!({"json_document": j, "label": format!("compiled {}", p.file_name().unwrap().to_string_lossy()), "pairs": crate::dev::dev_tape(env.seed * 31 + cases.len() as u64, 3000)}));
        }
    }
    rep.acc.classn("corpus_documents", cases.len() as u64);
    let r = run_list(env, &cases, |c, acc| exec(c, acc));
    rep.absorb(r);
    // generated programs
    let prof = Profile::rich();
    let n = env.cases(4000, 40000);
    let r = run_cases(
        env,
        1,
        n,
        || case_strategy(1500, 200),
        |gc: &GenCase, acc: &mut Acc| {
            let Some(b) = build_or_discard(&gc.prog, &prof, acc) else {
                return Ok(());
            };
            let case = json!({"source": b.src, "label": "generated program", "pairs": gc.hist});
            acc.sample(|| json!({"source": b.src}));
            exec(&case, acc)
        },
    );
    rep.absorb(r);
    finish(env, rep)
}
