//! C01 — compiled stories play exactly as the Ink language defines.
use crate::common::*;
use crate::engine::*;
use crate::lockstep::panic_fail;
use crate::pgen::{Profile, gen_program};
use crate::refint::{self, Machine, RLine, Stop};
use crate::rt::*;
use serde_json::{Value as J, json};
use std::rc::Rc;

const RULE: &str = "core-Ink programs generated as ASTs (knots with parameters, stitches, forward diverts, weave \
choices and gathers nested to depth 3 with once-only / sticky / conditional (one or several conditions) / fallback / \
labelled forms and start[choice-only]end text that may hold inline conditionals, sequences and printed values, \
inline conditionals and sequences nested in one another, block conditionals, switch blocks, multi-line sequence \
blocks, stopping / cycle / once-only sequences, forward diverts to knots, stitches and labelled gathers, VAR and temp \
int / bool / string arithmetic, read counts of knots, stitches and labels, TURNS_SINCE, TURNS, CHOICE_COUNT, tunnels (also left with ->-> target), \
functions with return values, text and ref parameters, threads (also with arguments), glue, tags, inline diverts, -> DONE), printed in \
canonical layout, compiled by the tree under test and played along every choice path (depth-first, bounded depth, \
width and path count; every path replayed from a fresh story). Oracle: an independent source-level reference \
interpreter over the same AST (harness/src/refint.rs): per turn the lines (text, tags), the offered choices (text, \
tags, order) or the end / error status, and at the end of every path the typed value of every global and the visit \
count of every knot and stitch must be equal. Second oracle (layout metamorphism): the same AST printed with \
Ink-irrelevant changes (blank lines, trailing spaces, // and block comments, deeper uniform indentation, tabs, \
a stitch of the current knot named without the knot, other spellings of knot headers (== k ==, === k) and of nested weave markers (** / --, extra blanks after a marker)) must compile and play identically along the explored paths. \
 Non-trivial = path with >= 1 choice point reached, >= 3 lines delivered and >= 2 of {nested weave, \
fallback followed, once-only choice exhausted, thread, tunnel, function that printed text, glue, look-ahead \
stressor executed, read count evaluated, sequence evaluated}; distinct = hash(source, path).";

pub fn profile() -> Profile {
    Profile {
        idioms: false,
        no_fall_off: true,
        rich_choice_text: true,
        no_tags_in_functions: true,
        nested_inline: true,
        label_diverts: true,
        block_sequences: true,
        switch_blocks: true,
        max_depth: 3,
        ..Profile::default()
    }
}

#[derive(Debug, Clone)]
pub struct Turn {
    pub lines: Vec<(String, Vec<String>)>,
    pub stop: TStop,
    /// diagnostic text (not compared)
    note: String,
}

impl PartialEq for Turn {
    fn eq(&self, o: &Turn) -> bool {
        self.lines == o.lines && self.stop == o.stop
    }
}

#[derive(Debug, Clone, PartialEq)]
pub enum TStop {
    Choices(Vec<(String, Vec<String>)>),
    End,
    Error,
}

fn norm_lines(v: Vec<(String, Vec<String>)>) -> Vec<(String, Vec<String>)> {
    v.into_iter().filter(|(t, g)| !(t.is_empty() && g.is_empty())).collect()
}

/// one turn of the real story: continue to the stop, collect lines
pub fn real_turn(h: &mut Host) -> Turn {
    let from = h.trace.len();
    h.apply(&HostOp::ContinueMax);
    let mut lines = vec![];
    let mut stop = None;
    let mut err = false;
    let mut note = String::new();
    for o in &h.trace[from..] {
        match o {
            Obs::Line { text, tags } => lines.push((text.clone(), tags.clone())),
            Obs::Choices(c) => stop = Some(TStop::Choices(c.clone())),
            Obs::End => stop = Some(TStop::End),
            Obs::Err { msg, .. } => {
                err = true;
                note = msg.clone();
            }
            _ => {}
        }
    }
    let stop = if err { TStop::Error } else { stop.unwrap_or(TStop::End) };
    Turn { lines: norm_lines(lines), stop, note }
}

pub fn model_turn(m: &mut Machine) -> Option<Turn> {
    let (lines, stop) = m.turn();
    let lines = norm_lines(lines.into_iter().map(|RLine { text, tags }| (text, tags)).collect());
    let mut note = String::new();
    let stop = match stop {
        Stop::Choices(c) => TStop::Choices(c),
        Stop::End => TStop::End,
        Stop::Error(e) => {
            note = e;
            TStop::Error
        }
        Stop::Fuel => return None,
    };
    Some(Turn { lines, stop, note })
}

/// equality of a turn of the story and of the reference, except that a continue which reports
/// an error does not deliver the text it had gathered
pub fn turns_agree(story: &Turn, reference: &Turn) -> bool {
    if story.stop == TStop::Error && reference.stop == TStop::Error && reference.lines.starts_with(&story.lines) {
        return true;
    }
    story == reference
}

pub fn show_turn(t: &Turn) -> String {
    if t.note.is_empty() {
        format!("lines={:?} stop={:?}", t.lines, t.stop)
    } else {
        format!("lines={:?} stop={:?} ({})", t.lines, t.stop, t.note)
    }
}


/// play a path on the compiled story only
fn real_path(json_text: &str, meta: &Rc<Meta>, path: &[usize]) -> Result<Result<(Vec<Turn>, View, bool), String>, PanicInfo> {
    let cfg = HostCfg { bind_externals: None, ..HostCfg::default() };
    guard(|| {
        let mut h = Host::new(json_text, meta.clone(), &cfg).map_err(|e| e.to_string())?;
        let mut turns = vec![];
        let mut k = 0;
        loop {
            let t = real_turn(&mut h);
            let open = matches!(&t.stop, TStop::Choices(_));
            turns.push(t);
            if !open || k >= path.len() {
                break;
            }
            h.apply(&HostOp::Choose(path[k]));
            k += 1;
        }
        let view = h.view();
        Ok::<_, String>((turns, view, h.fuel_exhausted()))
    })
}

/// `- cond:` / `- 0:` / `- text` lines inside `{ ... }` blocks are branch markers, not gathers
fn is_block_branch(rest: &str) -> bool {
    let r = rest.trim_start_matches('-').trim_start();
    r.ends_with(':') || r.starts_with("else")
}

/// The same program with layout changes that Ink defines as meaningless: blank lines,
/// trailing spaces, comment lines, deeper uniform indentation, tabs for indentation.
pub fn layout_variant(src: &str, tape: &[u16]) -> (String, Vec<&'static str>) {
    let mut t = crate::pgen::Tape::new(tape);
    let mut kinds = vec![];
    let blank = t.chance(1, 2);
    let trailing = t.chance(1, 2);
    let comments = t.chance(1, 2);
    let deeper = t.chance(1, 3);
    let tabs = t.chance(1, 3);
    let block_comment = t.chance(1, 4);
    if blank { kinds.push("blank_lines"); }
    if trailing { kinds.push("trailing_spaces"); }
    if comments { kinds.push("comment_lines"); }
    if deeper { kinds.push("deeper_indentation"); }
    if tabs { kinds.push("tab_indentation"); }
    if block_comment { kinds.push("block_comments"); }
    let bare = t.chance(1, 2);
    if bare {
        kinds.push("bare_stitch_names");
    }
    // other ways of writing the same headers and weave markers
    let header_style = t.pick(4); // 0 as printed, 1 `== k ==`, 2 `=== k`, 3 `==k==`
    if header_style != 0 {
        kinds.push("header_style");
    }
    let tight_markers = t.chance(1, 3); // `**` and `--` for nested levels
    if tight_markers {
        kinds.push("tight_markers");
    }
    let wide_markers = !tight_markers && t.chance(1, 3); // `*   text`
    if wide_markers {
        kinds.push("wide_markers");
    }
    let mut out = String::new();
    let mut knot = String::new();
    for line in src.lines() {
        // inside a knot its stitches may be named without the knot
        let owned;
        let mut line = line;
        if let Some(h) = line.strip_prefix("=== ") {
            let name: String = h.trim_start_matches("function ").chars().take_while(|c| c.is_alphanumeric() || *c == '_').collect();
            knot = name;
        } else if bare && !knot.is_empty() {
            let from = format!("-> {knot}.s");
            if line.contains(&from) {
                owned = line.replace(&from, "-> s");
                line = &owned;
            }
        }
        // header and marker styles
        let restyled;
        if let Some(h) = line.strip_prefix("=== ") {
            if let Some(inner) = h.strip_suffix(" ===") {
                restyled = match header_style {
                    1 => format!("== {inner} =="),
                    2 => format!("=== {inner}"),
                    3 => format!("=={inner}=="),
                    _ => line.to_string(),
                };
                line = &restyled;
            }
        } else if tight_markers || wide_markers {
            let indent_len = line.len() - line.trim_start_matches(' ').len();
            let (ind, rest) = line.split_at(indent_len);
            let mark = rest.chars().next().unwrap_or(' ');
            if (mark == '*' || mark == '+' || mark == '-') && !rest.starts_with("->") && !rest.starts_with("- else") {
                // the run of markers: `* * ` / `- - `
                let mut n = 0;
                let bytes = rest.as_bytes();
                let mut i = 0;
                while i < bytes.len() && bytes[i] as char == mark {
                    n += 1;
                    i += 1;
                    if i < bytes.len() && bytes[i] == b' ' && i + 1 < bytes.len() && bytes[i + 1] as char == mark {
                        i += 1;
                    }
                }
                let tail = rest[i..].trim_start_matches(' ');
                // a gather marker directly followed by `>` would read as a divert arrow
                if !(mark == '-' && tail.starts_with('>')) && !(mark == '-' && is_block_branch(rest)) {
                    let marks: String = if tight_markers {
                        std::iter::repeat(mark).take(n).collect()
                    } else {
                        vec![mark.to_string(); n].join("  ")
                    };
                    let gap = if wide_markers { "   " } else { " " };
                    restyled = if tail.is_empty() { format!("{ind}{marks}") } else { format!("{ind}{marks}{gap}{tail}") };
                    line = &restyled;
                }
            }
        }
        if comments && t.chance(1, 4) {
            out.push_str("// a remark for the writer\n");
        }
        if block_comment && t.chance(1, 6) {
            out.push_str("/* a longer remark\n   over two lines */\n");
        }
        if blank && t.chance(1, 3) {
            out.push('\n');
        }
        let indent_len = line.len() - line.trim_start_matches(' ').len();
        let (indent, rest) = line.split_at(indent_len);
        let mut ind = if tabs { "\t".repeat(indent.len() / 4) } else { indent.to_string() };
        if deeper {
            ind = format!("      {ind}");
        }
        out.push_str(&ind);
        out.push_str(rest);
        // (not on choice and gather lines: whether blanks after `]` are content is not settled
        // by the documentation)
        let weave_line = rest.starts_with('*') || rest.starts_with('+') || rest.starts_with('-');
        if trailing && !weave_line && t.chance(1, 2) {
            out.push_str("   ");
        }
        out.push('\n');
    }
    (out, kinds)
}


fn turn_to_json(t: &Turn) -> J {
    json!({
        "lines": t.lines.iter().map(|(x, g)| json!([x, g])).collect::<Vec<_>>(),
        "stop": match &t.stop {
            TStop::Choices(c) => json!({"choices": c.iter().map(|(x, g)| json!([x, g])).collect::<Vec<_>>()}),
            TStop::End => json!("end"),
            TStop::Error => json!("error"),
        },
    })
}

fn turn_from_json(j: &J) -> Option<Turn> {
    let pair = |v: &J| -> Option<(String, Vec<String>)> {
        let a = v.as_array()?;
        Some((
            a.first()?.as_str()?.to_string(),
            a.get(1)?.as_array()?.iter().filter_map(|x| x.as_str().map(|s| s.to_string())).collect(),
        ))
    };
    let lines = j["lines"].as_array()?.iter().filter_map(pair).collect();
    let stop = match &j["stop"] {
        J::String(s) if s == "end" => TStop::End,
        J::String(_) => TStop::Error,
        o => TStop::Choices(o["choices"].as_array()?.iter().filter_map(pair).collect()),
    };
    Some(Turn { lines, stop, note: String::new() })
}

/// the failing path with what the reference says along it: lets the case be replayed even when
/// the generator has changed and the tape no longer yields this program
fn with_frozen(case: &J, path: &[usize], mturns: &[Turn], m: &Machine, lw: &refint::Lowered, globals: &[String]) -> J {
    let mut c = case.clone();
    let g: serde_json::Map<String, J> = globals
        .iter()
        .map(|n| (n.clone(), json!(m.global(n).map(|v| v.render()).unwrap_or("none".into()))))
        .collect();
    let v: serde_json::Map<String, J> = lw.count_names.iter().map(|n| (n.clone(), json!(m.visit_count(n)))).collect();
    c["frozen"] = json!({
        "path": path,
        "turns": mturns.iter().map(turn_to_json).collect::<Vec<_>>(),
        "globals": g,
        "visits": v,
    });
    c
}

/// replay of a case whose tape no longer yields the recorded source: the story compiled from
/// the recorded source is compared with the recorded reference answer
fn exec_frozen(case: &J, acc: &mut Acc) -> Result<(), Fail> {
    let src = case["source"].as_str().unwrap_or("");
    let fr = &case["frozen"];
    let path: Vec<usize> = fr["path"].as_array().map(|a| a.iter().filter_map(|x| x.as_u64().map(|v| v as usize)).collect()).unwrap_or_default();
    let want: Vec<Turn> = fr["turns"].as_array().map(|a| a.iter().filter_map(turn_from_json).collect()).unwrap_or_default();
    let key = case["frozen_key"].as_str().unwrap_or("play-differs:frozen").to_string();
    acc.class("frozen_replay");
    let json_text = match guard(|| compile(src)) {
        Ok(Ok(j)) => j,
        Ok(Err(e)) => return Err(Fail::violation(key, format!("the recorded program is rejected: {e}"), case.clone())),
        Err(p) => return Err(Fail::violation(format!("panic@{}", p.site()), format!("compiler panicked: {}", p.msg), case.clone())),
    };
    let meta = Rc::new(meta_from_json(&json_text));
    let (turns, view, fuel) = match real_path(&json_text, &meta, &path) {
        Ok(Ok(x)) => x,
        Ok(Err(e)) => return Err(Fail::violation(key, format!("the recorded program does not load: {e}"), case.clone())),
        Err(p) => return Err(panic_fail(&p, "playing a recorded program", case)),
    };
    if fuel {
        return Ok(());
    }
    acc.eval();
    for i in 0..turns.len().max(want.len()) {
        let (a, b) = (turns.get(i), want.get(i));
        if let (Some(x), Some(y)) = (a, b) {
            if x.stop == TStop::Error && y.stop == TStop::Error && y.lines.starts_with(&x.lines) {
                continue;
            }
        }
        if a != b {
            return Err(Fail::violation(
                key,
                format!("path {path:?}, turn {i}: story {} | recorded reference {}", a.map(show_turn).unwrap_or("<none>".into()), b.map(show_turn).unwrap_or("<none>".into())),
                case.clone(),
            ));
        }
    }
    if let Some(g) = fr["globals"].as_object() {
        for (n, v) in g {
            if view.globals.get(n).map(|s| s.as_str()) != v.as_str() {
                return Err(Fail::violation(key, format!("path {path:?}: global {n} is {:?}, recorded reference says {v}", view.globals.get(n)), case.clone()));
            }
        }
    }
    if let Some(g) = fr["visits"].as_object() {
        for (n, v) in g {
            if view.visits.get(n).copied().unwrap_or(0) as i64 != v.as_i64().unwrap_or(0) {
                return Err(Fail::violation(key, format!("path {path:?}: visit count of {n} differs from the recorded reference {v}"), case.clone()));
            }
        }
    }
    Ok(())
}

struct Bounds {
    depth: usize,
    width: usize,
    paths: usize,
}

/// Play `path` on both sides; returns Ok(Some(number of choices at the end)) when the path is
/// still open, Ok(None) when it ended.
fn play_path(
    json_text: &str,
    meta: &Rc<Meta>,
    lw: &refint::Lowered,
    path: &[usize],
    src: &str,
    case: &J,
    acc: &mut Acc,
) -> Result<Option<usize>, Fail> {
    let cfg = HostCfg { bind_externals: None, ..HostCfg::default() };
    let r = guard(|| {
        let mut h = Host::new(json_text, meta.clone(), &cfg).map_err(|e| e.to_string())?;
        let mut turns = vec![];
        let mut k = 0;
        loop {
            let t = real_turn(&mut h);
            let open = matches!(&t.stop, TStop::Choices(_));
            turns.push(t);
            if !open || k >= path.len() {
                break;
            }
            h.apply(&HostOp::Choose(path[k]));
            k += 1;
        }
        let view = h.view();
        Ok::<_, String>((turns, view, h.fuel_exhausted()))
    });
    let (rturns, rview, rfuel) = match r {
        Err(p) => return Err(panic_fail(&p, "playing a generated program", case)),
        Ok(Err(e)) => {
            return Err(Fail::violation(
                "story-new-failed",
                format!("the compiled story does not load: {e}"),
                case.clone(),
            ));
        }
        Ok(Ok(x)) => x,
    };
    if rfuel {
        acc.discard("fuel");
        return Ok(None);
    }
    // the model
    let mut m = match Machine::new(lw) {
        Ok(m) => m,
        Err(e) => return Err(Fail::harness(format!("reference interpreter cannot start: {e}\n{src}"))),
    };
    let mut mturns = vec![];
    let mut k = 0;
    loop {
        let Some(t) = model_turn(&mut m) else {
            acc.discard("model_fuel");
            return Ok(None);
        };
        let open = matches!(&t.stop, TStop::Choices(_));
        mturns.push(t);
        if !open || k >= path.len() {
            break;
        }
        if m.choose(path[k]).is_err() {
            break;
        }
        k += 1;
    }
    acc.eval();
    for i in 0..rturns.len().max(mturns.len()) {
        let a = rturns.get(i);
        let b = mturns.get(i);
        // a continue that reports an error does not deliver the text it had gathered
        if let (Some(x), Some(y)) = (a, b) {
            if x.stop == TStop::Error && y.stop == TStop::Error && y.lines.starts_with(&x.lines) {
                continue;
            }
        }
        if a != b {
            let what = match (a, b) {
                (Some(a), Some(b)) => {
                    if a.lines != b.lines {
                        "lines"
                    } else {
                        match (&a.stop, &b.stop) {
                            (TStop::Choices(_), TStop::Choices(_)) => "choices",
                            _ => "stop",
                        }
                    }
                }
                _ => "turns",
            };
            return Err(Fail::violation(
                format!("play-differs:{what}"),
                format!(
                    "path {:?}, turn {i}: story {} | reference {}",
                    path,
                    a.map(show_turn).unwrap_or("<none>".into()),
                    b.map(show_turn).unwrap_or("<none>".into())
                ),
                with_frozen(case, path, &mturns, &m, lw, &meta.globals),
            ));
        }
    }
    // final state
    for (g, v) in &rview.globals {
        let mv = m.global(g).map(|v| v.render()).unwrap_or("none".into());
        if *v != mv {
            return Err(Fail::violation(
                "play-differs:globals",
                format!("path {path:?}: global {g} is {v}, reference says {mv}"),
                with_frozen(case, path, &mturns, &m, lw, &meta.globals),
            ));
        }
    }
    for n in &lw.count_names {
        let rv = rview.visits.get(n).copied().unwrap_or(0);
        let mv = m.visit_count(n);
        if rv != mv {
            return Err(Fail::violation(
                "play-differs:visits",
                format!("path {path:?}: visit count of {n} is {rv}, reference says {mv}"),
                with_frozen(case, path, &mturns, &m, lw, &meta.globals),
            ));
        }
    }
    // non-triviality
    let nlines: usize = mturns.iter().map(|t| t.lines.len()).sum();
    let ev = m.events();
    for e in &ev {
        acc.class(&format!("executed:{e}"));
    }
    if mturns.len() > 1 && nlines >= 3 && ev.len() >= 2 {
        acc.nontrivial(fnv(&format!("{src}{path:?}")));
    }
    match mturns.last().map(|t| &t.stop) {
        Some(TStop::Choices(c)) => Ok(Some(c.len())),
        _ => Ok(None),
    }
}

fn explore(src: &str, prog: &crate::ast::Program, bounds: &Bounds, case: &J, acc: &mut Acc) -> Result<(), Fail> {
    let json_text = match guard(|| compile(src)) {
        Err(p) => {
            return Err(Fail::violation(
                format!("panic@{}", p.site()),
                format!("compiler panicked: {} ({})", p.msg, p.site()),
                case.clone(),
            ));
        }
        Ok(Err(e)) => {
            let cls: String = e.chars().filter(|c| !c.is_ascii_digit()).take(60).collect();
            return Err(Fail::violation(
                format!("compile-error:{}", cls.split('\'').next().unwrap_or("").trim()),
                format!("a program of the supported core is rejected: {e}"),
                case.clone(),
            ));
        }
        Ok(Ok(j)) => j,
    };
    let meta = Rc::new(meta_from_json(&json_text));
    let lw = refint::lower(prog);
    for f in prog.features() {
        acc.class(&format!("program:{f}"));
    }
    if src.lines().any(|l| {
        let l = l.trim_start();
        l.starts_with("-> k") && l.rsplit('.').next().map(|x| x.starts_with('l')).unwrap_or(false) && l.contains('.')
    }) {
        acc.class("program:divert_to_gather_label");
    }
    // depth-first over choice paths, every path replayed from scratch
    let mut stack: Vec<Vec<usize>> = vec![vec![]];
    let mut npaths = 0;
    let mut played: Vec<Vec<usize>> = vec![];
    while let Some(path) = stack.pop() {
        if played.len() < 12 {
            played.push(path.clone());
        }
        if npaths >= bounds.paths {
            acc.class("path_cap_reached");
            break;
        }
        npaths += 1;
        let open = play_path(&json_text, &meta, &lw, &path, src, case, acc)?;
        if let Some(n) = open {
            if path.len() < bounds.depth {
                for c in (0..n.min(bounds.width)).rev() {
                    let mut p = path.clone();
                    p.push(c);
                    stack.push(p);
                }
            }
        }
    }
    // second oracle: Ink-irrelevant layout changes do not change the story
    let ltape: Vec<u16> = case["tape"]
        .as_array()
        .map(|a| a.iter().rev().take(400).filter_map(|v| v.as_u64().map(|x| x as u16)).collect())
        .unwrap_or_default();
    let (vsrc, kinds) = layout_variant(src, &ltape);
    if !kinds.is_empty() {
        let vjson = match guard(|| compile(&vsrc)) {
            Err(p) => {
                return Err(Fail::violation(
                    format!("panic@{}", p.site()),
                    format!("compiler panicked on a layout variant: {} ({})", p.msg, p.site()),
                    json!({"tape": case["tape"], "source": case["source"], "variant": vsrc, "depth": case["depth"], "width": case["width"], "paths": case["paths"]}),
                ));
            }
            Ok(Err(e)) => {
                return Err(Fail::violation(
                    "layout:compile-error",
                    format!("the program compiles, but not with layout changes {kinds:?}: {e}"),
                    json!({"tape": case["tape"], "source": case["source"], "variant": vsrc, "depth": case["depth"], "width": case["width"], "paths": case["paths"]}),
                ));
            }
            Ok(Ok(j)) => j,
        };
        let vmeta = Rc::new(meta_from_json(&vjson));
        for k in &kinds {
            acc.class(&format!("layout:{k}"));
        }
        for path in &played {
            let a = real_path(&json_text, &meta, path);
            let b = real_path(&vjson, &vmeta, path);
            let (Ok(Ok((ta, va, fa))), Ok(Ok((tb, vb, fb)))) = (a, b) else {
                return Err(Fail::violation(
                    "layout:play-fails",
                    format!("a layout variant ({kinds:?}) cannot be played along path {path:?}"),
                    json!({"tape": case["tape"], "source": case["source"], "variant": vsrc, "depth": case["depth"], "width": case["width"], "paths": case["paths"]}),
                ));
            };
            if fa || fb {
                continue;
            }
            acc.eval();
            // (visit counts: knots and stitches only; the two documents need not name their
            // internal containers alike)
            let counts = |v: &View| -> Vec<i32> { lw.count_names.iter().map(|n| v.visits.get(n).copied().unwrap_or(0)).collect() };
            if ta != tb || va.globals != vb.globals || counts(&va) != counts(&vb) {
                let i = (0..ta.len().max(tb.len())).find(|i| ta.get(*i) != tb.get(*i));
                return Err(Fail::violation(
                    "layout:play-differs",
                    format!(
                        "layout changes {kinds:?} change the story along path {path:?}: turn {i:?}: original {} | variant {}",
                        i.and_then(|i| ta.get(i)).map(show_turn).unwrap_or(format!("<same turns> globals {:?} counts {:?}", va.globals, counts(&va))),
                        i.and_then(|i| tb.get(i)).map(show_turn).unwrap_or(format!("<same turns> globals {:?} counts {:?}", vb.globals, counts(&vb)))
                    ),
                    json!({"tape": case["tape"], "source": case["source"], "variant": vsrc, "depth": case["depth"], "width": case["width"], "paths": case["paths"]}),
                ));
            }
        }
    }
    Ok(())
}

/// Structural classes of programs that meet a listed known finding (known_findings.jsonl).
/// A failure of such a program is reported under the class key, so that the listing
/// suppresses exactly that class and nothing else.
fn known_class(p: &crate::ast::Program) -> Option<&'static str> {
    use crate::ast::*;
    fn has_seq(v: &[Inline]) -> bool {
        v.iter().any(|i| matches!(i, Inline::Seq(..)))
    }
    fn block(b: &Block, found: &mut Option<&'static str>) {
        if let Some(g) = &b.group {
            for c in &g.choices {
                // (no class is listed at present; the mechanism stays for the next finding that is
                // recorded rather than repaired)
                let _ = (has_seq(&c.start), &mut *found);
                block(&c.body, found);
            }
            if let Some((_, rest)) = &g.gather {
                block(rest, found);
            }
        }
    }
    let mut found = None;
    block(&p.root, &mut found);
    for k in &p.knots {
        block(&k.body, &mut found);
        for s in &k.stitches {
            block(&s.body, &mut found);
        }
    }
    found
}

pub fn exec(case: &J, acc: &mut Acc) -> Result<(), Fail> {
    let tape: Vec<u16> = case["tape"]
        .as_array()
        .map(|a| a.iter().filter_map(|v| v.as_u64().map(|x| x as u16)).collect())
        .unwrap_or_default();
    let prog = gen_program(&tape, &profile());
    let src = prog.to_ink();
    if let Some(s) = case["source"].as_str() {
        if s != src {
            // the generator has changed since the case was recorded
            if case.get("frozen").is_some() {
                return exec_frozen(case, acc);
            }
            acc.class("stale_replay_skipped");
            return Ok(());
        }
    }
    let bounds = Bounds {
        depth: case["depth"].as_u64().unwrap_or(4) as usize,
        width: case["width"].as_u64().unwrap_or(6) as usize,
        paths: case["paths"].as_u64().unwrap_or(60) as usize,
    };
    match explore(&src, &prog, &bounds, case, acc) {
        Err(mut f) if f.kind == FailKind::Violation => {
            if let Some(cls) = known_class(&prog) {
                acc.class(cls);
                f.msg = format!("[{}] {}", f.key, f.msg);
                f.key = cls.to_string();
            }
            if f.case.get("frozen").is_some() {
                f.case["frozen_key"] = json!(f.key);
            }
            Err(f)
        }
        r => r,
    }
}

pub fn run(env: &Env) -> i32 {
    let mut rep = Report::new("exploration", RULE);
    rep.assumptions = vec![
        "the reference interpreter (harness/src/refint.rs) is the trusted statement of the Ink rules for the generated core; constructs whose meaning the documentation does not settle are not generated".into(),
        "programs are printed in the canonical layout of the conformance corpus; Ink-irrelevant layout changes are a separate class".into(),
        "lines that are empty and carry no tags are not compared (a continue that yields no text)".into(),
        "fuel-bounded on both sides; bounded depth / width / number of paths per program".into(),
    ];
    if let Some(p) = &env.replay {
        return match load_replay_case(p) {
            Ok((_, case)) => {
                let mut acc = Acc::default();
                if let Err(f) = exec(&case, &mut acc) {
                    rep.fails.push(f);
                }
                rep.acc.merge(acc);
                finish(env, rep)
            }
            Err(e) => {
                println!("cannot load replay: {e}");
                2
            }
        };
    }
    replay_saved(env, &mut rep, &exec);
    let (depth, width, paths) = match env.tier {
        Tier::Quick => (4, 4, 40),
        Tier::Thorough => (7, 6, 400),
    };
    let n = env.cases(8000, 60000);
    let r = run_cases(
        env,
        1,
        n,
        || crate::pgen::tape_strategy(1500),
        |tape: &Vec<u16>, acc: &mut Acc| {
            let prog = gen_program(tape, &profile());
            let src = prog.to_ink();
            let case = json!({"tape": tape, "source": src, "depth": depth, "width": width, "paths": paths});
            acc.sample(|| json!({"source": src}));
            exec(&case, acc)
        },
    );
    rep.absorb(r);
    finish(env, rep)
}
