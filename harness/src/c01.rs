//! C01 — compiled stories play exactly as the Ink language defines.
use crate::common::*;
use crate::engine::*;
use crate::lockstep::panic_fail;
use crate::pgen::{Profile, gen_program};
use crate::refint::{self, Machine, RLine, Stop};
use crate::rt::*;
use serde_json::{Value as J, json};
use std::rc::Rc;

const RULE: &str = "core-Ink programs generated as ASTs (knots with parameters, stitches, forward diverts, weave \
choices and gathers nested to depth 2 with once-only / sticky / conditional / fallback / labelled forms and \
start[choice-only]end text, inline and block conditionals, stopping / cycle / once-only sequences, VAR and temp \
int / bool / string arithmetic, read counts of knots, stitches and labels, TURNS_SINCE, TURNS, CHOICE_COUNT, tunnels, \
functions with return values, text and ref parameters, threads, glue, tags, inline diverts, -> DONE), printed in \
canonical layout, compiled by the tree under test and played along every choice path (depth-first, bounded depth, \
width and path count; every path replayed from a fresh story). Oracle: an independent source-level reference \
interpreter over the same AST (harness/src/refint.rs): per turn the lines (text, tags), the offered choices (text, \
tags, order) or the end / error status, and at the end of every path the typed value of every global and the visit \
count of every knot and stitch must be equal. Second oracle (layout metamorphism): the same AST printed with \
Ink-irrelevant layout changes (blank lines, trailing spaces, // comments, deeper uniform indentation) must play \
identically. Non-trivial = path with >= 1 choice point reached, >= 3 lines delivered and >= 2 of {nested weave, \
fallback followed, once-only choice exhausted, thread, tunnel, function that printed text, glue, look-ahead \
stressor executed, read count evaluated, sequence evaluated}; distinct = hash(source, path).";

pub fn profile() -> Profile {
    Profile {
        idioms: false,
        no_fall_off: true,
        ..Profile::default()
    }
}

#[derive(Debug, Clone)]
struct Turn {
    lines: Vec<(String, Vec<String>)>,
    stop: TStop,
    /// diagnostic text (not compared)
    note: String,
}

impl PartialEq for Turn {
    fn eq(&self, o: &Turn) -> bool {
        self.lines == o.lines && self.stop == o.stop
    }
}

#[derive(Debug, Clone, PartialEq)]
enum TStop {
    Choices(Vec<(String, Vec<String>)>),
    End,
    Error,
}

fn norm_lines(v: Vec<(String, Vec<String>)>) -> Vec<(String, Vec<String>)> {
    v.into_iter().filter(|(t, g)| !(t.is_empty() && g.is_empty())).collect()
}

/// one turn of the real story: continue to the stop, collect lines
fn real_turn(h: &mut Host) -> Turn {
    let from = h.trace.len();
    h.apply(&HostOp::ContinueMax);
    let mut lines = vec![];
    let mut stop = None;
    let mut err = false;
    let mut note = String::new();
    for o in &h.trace[from..] {
        match o {
            Obs::Line { text, tags } => lines.push((text.clone(), tags.clone())),
            Obs::Choices(c) => stop = Some(TStop::Choices(c.clone())),
            Obs::End => stop = Some(TStop::End),
            Obs::Err { msg, .. } => {
                err = true;
                note = msg.clone();
            }
            _ => {}
        }
    }
    let stop = if err { TStop::Error } else { stop.unwrap_or(TStop::End) };
    Turn { lines: norm_lines(lines), stop, note }
}

fn model_turn(m: &mut Machine) -> Option<Turn> {
    let (lines, stop) = m.turn();
    let lines = norm_lines(lines.into_iter().map(|RLine { text, tags }| (text, tags)).collect());
    let mut note = String::new();
    let stop = match stop {
        Stop::Choices(c) => TStop::Choices(c),
        Stop::End => TStop::End,
        Stop::Error(e) => {
            note = e;
            TStop::Error
        }
        Stop::Fuel => return None,
    };
    Some(Turn { lines, stop, note })
}

fn show_turn(t: &Turn) -> String {
    if t.note.is_empty() {
        format!("lines={:?} stop={:?}", t.lines, t.stop)
    } else {
        format!("lines={:?} stop={:?} ({})", t.lines, t.stop, t.note)
    }
}

struct Bounds {
    depth: usize,
    width: usize,
    paths: usize,
}

/// Play `path` on both sides; returns Ok(Some(number of choices at the end)) when the path is
/// still open, Ok(None) when it ended.
fn play_path(
    json_text: &str,
    meta: &Rc<Meta>,
    lw: &refint::Lowered,
    path: &[usize],
    src: &str,
    case: &J,
    acc: &mut Acc,
) -> Result<Option<usize>, Fail> {
    let cfg = HostCfg { bind_externals: None, ..HostCfg::default() };
    let r = guard(|| {
        let mut h = Host::new(json_text, meta.clone(), &cfg).map_err(|e| e.to_string())?;
        let mut turns = vec![];
        let mut k = 0;
        loop {
            let t = real_turn(&mut h);
            let open = matches!(&t.stop, TStop::Choices(_));
            turns.push(t);
            if !open || k >= path.len() {
                break;
            }
            h.apply(&HostOp::Choose(path[k]));
            k += 1;
        }
        let view = h.view();
        Ok::<_, String>((turns, view, h.fuel_exhausted()))
    });
    let (rturns, rview, rfuel) = match r {
        Err(p) => return Err(panic_fail(&p, "playing a generated program", case)),
        Ok(Err(e)) => {
            return Err(Fail::violation(
                "story-new-failed",
                format!("the compiled story does not load: {e}"),
                case.clone(),
            ));
        }
        Ok(Ok(x)) => x,
    };
    if rfuel {
        acc.discard("fuel");
        return Ok(None);
    }
    // the model
    let mut m = match Machine::new(lw) {
        Ok(m) => m,
        Err(e) => return Err(Fail::harness(format!("reference interpreter cannot start: {e}\n{src}"))),
    };
    let mut mturns = vec![];
    let mut k = 0;
    loop {
        let Some(t) = model_turn(&mut m) else {
            acc.discard("model_fuel");
            return Ok(None);
        };
        let open = matches!(&t.stop, TStop::Choices(_));
        mturns.push(t);
        if !open || k >= path.len() {
            break;
        }
        if m.choose(path[k]).is_err() {
            break;
        }
        k += 1;
    }
    acc.eval();
    for i in 0..rturns.len().max(mturns.len()) {
        let a = rturns.get(i);
        let b = mturns.get(i);
        // a continue that reports an error does not deliver the text it had gathered
        if let (Some(x), Some(y)) = (a, b) {
            if x.stop == TStop::Error && y.stop == TStop::Error && y.lines.starts_with(&x.lines) {
                continue;
            }
        }
        if a != b {
            let what = match (a, b) {
                (Some(a), Some(b)) => {
                    if a.lines != b.lines {
                        "lines"
                    } else {
                        match (&a.stop, &b.stop) {
                            (TStop::Choices(_), TStop::Choices(_)) => "choices",
                            _ => "stop",
                        }
                    }
                }
                _ => "turns",
            };
            return Err(Fail::violation(
                format!("play-differs:{what}"),
                format!(
                    "path {:?}, turn {i}: story {} | reference {}",
                    path,
                    a.map(show_turn).unwrap_or("<none>".into()),
                    b.map(show_turn).unwrap_or("<none>".into())
                ),
                case.clone(),
            ));
        }
    }
    // final state
    for (g, v) in &rview.globals {
        let mv = m.global(g).map(|v| v.render()).unwrap_or("none".into());
        if *v != mv {
            return Err(Fail::violation(
                "play-differs:globals",
                format!("path {path:?}: global {g} is {v}, reference says {mv}"),
                case.clone(),
            ));
        }
    }
    for n in &lw.count_names {
        let rv = rview.visits.get(n).copied().unwrap_or(0);
        let mv = m.visit_count(n);
        if rv != mv {
            return Err(Fail::violation(
                "play-differs:visits",
                format!("path {path:?}: visit count of {n} is {rv}, reference says {mv}"),
                case.clone(),
            ));
        }
    }
    // non-triviality
    let nlines: usize = mturns.iter().map(|t| t.lines.len()).sum();
    let ev = m.events();
    for e in &ev {
        acc.class(&format!("executed:{e}"));
    }
    if mturns.len() > 1 && nlines >= 3 && ev.len() >= 2 {
        acc.nontrivial(fnv(&format!("{src}{path:?}")));
    }
    match mturns.last().map(|t| &t.stop) {
        Some(TStop::Choices(c)) => Ok(Some(c.len())),
        _ => Ok(None),
    }
}

fn explore(src: &str, prog: &crate::ast::Program, bounds: &Bounds, case: &J, acc: &mut Acc) -> Result<(), Fail> {
    let json_text = match guard(|| compile(src)) {
        Err(p) => {
            return Err(Fail::violation(
                format!("panic@{}", p.site()),
                format!("compiler panicked: {} ({})", p.msg, p.site()),
                case.clone(),
            ));
        }
        Ok(Err(e)) => {
            let cls: String = e.chars().filter(|c| !c.is_ascii_digit()).take(60).collect();
            return Err(Fail::violation(
                format!("compile-error:{}", cls.split('\'').next().unwrap_or("").trim()),
                format!("a program of the supported core is rejected: {e}"),
                case.clone(),
            ));
        }
        Ok(Ok(j)) => j,
    };
    let meta = Rc::new(meta_from_json(&json_text));
    let lw = refint::lower(prog);
    for f in prog.features() {
        acc.class(&format!("program:{f}"));
    }
    // depth-first over choice paths, every path replayed from scratch
    let mut stack: Vec<Vec<usize>> = vec![vec![]];
    let mut npaths = 0;
    while let Some(path) = stack.pop() {
        if npaths >= bounds.paths {
            acc.class("path_cap_reached");
            break;
        }
        npaths += 1;
        let open = play_path(&json_text, &meta, &lw, &path, src, case, acc)?;
        if let Some(n) = open {
            if path.len() < bounds.depth {
                for c in (0..n.min(bounds.width)).rev() {
                    let mut p = path.clone();
                    p.push(c);
                    stack.push(p);
                }
            }
        }
    }
    Ok(())
}

pub fn exec(case: &J, acc: &mut Acc) -> Result<(), Fail> {
    let tape: Vec<u16> = case["tape"]
        .as_array()
        .map(|a| a.iter().filter_map(|v| v.as_u64().map(|x| x as u16)).collect())
        .unwrap_or_default();
    let prog = gen_program(&tape, &profile());
    let src = prog.to_ink();
    if let Some(s) = case["source"].as_str() {
        if s != src {
            return Err(Fail::harness(
                "stale replay: the generator no longer produces the recorded source from this tape".to_string(),
            ));
        }
    }
    let bounds = Bounds {
        depth: case["depth"].as_u64().unwrap_or(4) as usize,
        width: case["width"].as_u64().unwrap_or(6) as usize,
        paths: case["paths"].as_u64().unwrap_or(60) as usize,
    };
    explore(&src, &prog, &bounds, case, acc)
}

pub fn run(env: &Env) -> i32 {
    let mut rep = Report::new("exploration", RULE);
    rep.assumptions = vec![
        "the reference interpreter (harness/src/refint.rs) is the trusted statement of the Ink rules for the generated core; constructs whose meaning the documentation does not settle are not generated".into(),
        "programs are printed in the canonical layout of the conformance corpus; Ink-irrelevant layout changes are a separate class".into(),
        "lines that are empty and carry no tags are not compared (a continue that yields no text)".into(),
        "fuel-bounded on both sides; bounded depth / width / number of paths per program".into(),
    ];
    if let Some(p) = &env.replay {
        return match load_replay_case(p) {
            Ok((_, case)) => {
                let mut acc = Acc::default();
                if let Err(f) = exec(&case, &mut acc) {
                    rep.fails.push(f);
                }
                rep.acc.merge(acc);
                finish(env, rep)
            }
            Err(e) => {
                println!("cannot load replay: {e}");
                2
            }
        };
    }
    replay_saved(env, &mut rep, &exec);
    let (depth, width, paths) = match env.tier {
        Tier::Quick => (4, 4, 40),
        Tier::Thorough => (7, 6, 400),
    };
    let n = env.cases(2000, 60000);
    let r = run_cases(
        env,
        1,
        n,
        || crate::pgen::tape_strategy(1500),
        |tape: &Vec<u16>, acc: &mut Acc| {
            let prog = gen_program(tape, &profile());
            let src = prog.to_ink();
            let case = json!({"tape": tape, "source": src, "depth": depth, "width": width, "paths": paths});
            acc.sample(|| json!({"source": src}));
            exec(&case, acc)
        },
    );
    rep.absorb(r);
    finish(env, rep)
}
