//! Idiom programs: hand-written Ink idioms (each exercising a corner the conformance corpus and
//! bug reports of ink engines show to be delicate) instantiated with unique names and chained
//! in a generated order. They complement the grammar-based generator the way a seed corpus
//! complements a fuzzer: shapes that need several constructs to line up (a thread offering only
//! a fallback after `-> DONE`, a tunnel holding choices, glue across a look-ahead with a side
//! effect in between, ...) appear with high probability instead of almost never.
use crate::pgen::Tape;

/// templates: `@` = unique id, `NEXT` = where the idiom hands over, `GLOB` lines are hoisted
const IDIOMS: &[(&str, &str)] = &[
    (
        "thread_options_then_done",
        "=== k@ ===\nYou are in room @.\n<- opts@\n-> DONE\n=== opts@ ===\n* {seen@ > 0} [Leave room @]\n    -> NEXT\n* ->\n    ~ seen@ = seen@ + 1\n    There is nothing to do in room @.\nGLOB VAR seen@ = 0\n",
    ),
    (
        "thread_options_then_done_with_exit",
        "=== k@ ===\nYou are in hall @.\n<- opts@\n-> DONE\n=== opts@ ===\n* [Leave hall @]\n    -> NEXT\n* [Wait in hall @]\n    You wait.\n    -> k@\n* ->\n    Nobody is left in hall @.\n    -> NEXT\n",
    ),
    (
        "fallback_after_exhaustion",
        "=== k@ ===\nPick @.\n* [first @]\n    One. -> k@\n* [second @] Two.\n    -> k@\n* ->\n    All gone @.\n    -> NEXT\n",
    ),
    (
        "sticky_counter_loop",
        "=== k@ ===\n{c@ < 2: Again @ {c@}.|Enough @.}\n+ {c@ < 2} [again @]\n    ~ c@ = c@ + 1\n    -> k@\n* [leave @] -> NEXT\nGLOB VAR c@ = 0\n",
    ),
    (
        "tunnel_with_choice",
        "=== k@ ===\nBefore tunnel @.\n-> tun@ ->\nAfter tunnel @ {t@}.\n-> NEXT\n=== tun@ ===\nInside @.\n~ t@ = t@ + 1\n* [deeper @]\n    -> tun@b ->\n    Back in @.\n    ->->\n* [out @]\n    ->->\n=== tun@b ===\nDeep @.\n~ t@ = t@ + 10\n->->\nGLOB VAR t@ = 0\n",
    ),
    (
        "glue_over_lookahead",
        "=== k@ ===\nStart @ <>\n~ n@ = n@ + 1\n~ n@ = n@ * 2\nmiddle {n@}\n<> end @.\n~ n@ = n@ + 100\nNext line @ {n@}.\n-> NEXT\nGLOB VAR n@ = 1\n",
    ),
    (
        "function_text_and_value",
        "=== k@ ===\nCalling @: {say@(3)} done.\n~ temp r = twice@(4)\nResult @ {r} {twice@(r)}.\n-> NEXT\n=== function say@(x) ===\nfirst {x}\nsecond {x + 1}\n~ return\n=== function twice@(x) ===\n~ return x * 2\n",
    ),
    (
        "sequences_in_loop",
        "=== k@ ===\n{a@|b@|c@} {&x@|y@} {!once@|twice@} {~p@|q@|r@}\n~ v@ = v@ + 1\n{v@ < 4: -> k@}\n-> NEXT\nGLOB VAR v@ = 0\n",
    ),
    (
        "labels_and_counts",
        "=== k@ ===\n- (top@) At top @ {top@} {k@}.\n* (first@) [one @]\n    Picked one {first@}.\n* (second@) [two @]\n    Picked two {second@} {k@.first@}.\n- (after@) After {after@} {TURNS_SINCE(-> k@)}.\n{top@ < 2: -> top@}\n-> NEXT\n",
    ),
    (
        "thread_merges_choices",
        "=== k@ ===\nMerge @.\n<- side@\n* [own choice @]\n    Own @.\n    -> NEXT\n=== side@ ===\nSide text @.\n* [side choice @]\n    Side @.\n    -> NEXT\n- -> DONE\n",
    ),
    (
        "variable_divert",
        "=== k@ ===\n~ d@ = -> alt@\nGoing @.\n-> d@\n=== alt@ ===\nAlt @.\n~ d@ = -> fin@\n-> d@\n=== fin@ ===\n-> NEXT\nGLOB VAR d@ = -> k@\n",
    ),
    (
        "nested_weave",
        "=== k@ ===\nNested @.\n* [a @]\n    A.\n    * * [a1 @]\n        A1.\n        * * * [a11 @]\n            A11.\n        * * * [a12 @] A12.\n        - - - Inner gather @.\n    * * [a2 @]\n        A2.\n    - - Middle gather @.\n* [b @] B.\n- Outer gather @.\n-> NEXT\n",
    ),
    (
        "conditional_block_diverts",
        "=== k@ ===\n{\n- f@ == 0:\n    ~ f@ = 1\n    Zero @.\n    -> k@\n- f@ == 1:\n    ~ f@ = 2\n    One @.\n- else:\n    Other @.\n}\nTail @ {f@}.\n-> NEXT\nGLOB VAR f@ = 0\n",
    ),
    (
        "external_after_line_end",
        "=== k@ ===\nBefore call @.\n~ x@ = ext@(x@)\nAfter call @ {x@} {ext@(7)}.\n-> NEXT\n=== function ext@(a) ===\n~ return a + 1\nGLOB VAR x@ = 1\nGLOB EXTERNAL ext@(a)\n",
    ),
    (
        "list_state",
        "=== k@ ===\n~ l@ += L@.b\nList @ {l@} {LIST_COUNT(l@)} {l@ ? L@.a}.\n~ l@ -= L@.a\nNow {l@} {LIST_ALL(l@)} {LIST_INVERT(l@)} {LIST_MIN(l@)}.\n~ l@ = ()\nEmpty {LIST_ALL(l@)}.\n-> NEXT\nGLOB LIST L@ = (a), b, c\nGLOB VAR l@ = (a)\n",
    ),
    (
        "tags_everywhere",
        "=== k@ ===\nTagged line @ # t1 # t2\n* [choice @ # ct] after # at\n    Body @ # bt\n* [other @]\n- Gather @ # gt\n-> NEXT\n",
    ),
    (
        "done_then_nothing",
        "=== k@ ===\nLast words @.\n* {false} [never @]\n    -> NEXT\n* ->\n    -> NEXT\n",
    ),
    (
        "choice_text_logic",
        "=== k@ ===\nShop @.\n* {m@ > 0} Buy[ for {m@} coins] it for {m@}.\n    ~ m@ = m@ - 1\n    -> k@\n+ [Look ({m@} left)]\n    You look. -> k@b\n=== k@b ===\n* [Leave shop @] -> NEXT\n* [Back @] -> k@\nGLOB VAR m@ = 2\n",
    ),
    (
        "random_and_shuffle",
        "=== k@ ===\nRoll {RANDOM(1, 6)} {RANDOM(1, 6)} {~h@|t@}.\n~ temp r = RANDOM(0, 1)\n{r: Heads @|Tails @}.\n-> NEXT\n",
    ),
    (
        "tunnel_onwards",
        "=== k@ ===\n-> pass@ ->\nUnreached or reached @.\n-> NEXT\n=== pass@ ===\nPassing @.\n{once@ == 0:\n    ~ once@ = 1\n    ->-> fin@\n}\n->->\n=== fin@ ===\nOnwards @.\n-> NEXT\nGLOB VAR once@ = 0\n",
    ),
    (
        "list_ties_and_random",
        "=== k@ ===\n~ pick@ = LIST_RANDOM(pool@)\nDrew {pick@} of {pool@}: {LIST_ALL(pick@)}.\n~ pick@ = LIST_MIN(pool@)\nMin {pick@}: {LIST_ALL(pick@)} max {LIST_MAX(pool@)}: {LIST_ALL(LIST_MAX(pool@))}.\n~ pool@ -= pick@\nRest {pool@} {LIST_ALL(LIST_RANDOM(pool@))} {A@(1)} {B@(3)}.\n-> NEXT\nGLOB LIST A@ = x, y, w\nGLOB LIST B@ = x, z, w\nGLOB VAR pool@ = (A@.x, B@.x, A@.w, B@.w, B@.z)\nGLOB VAR pick@ = ()\n",
    ),
    (
        // one `()` literal reached from several places (a function returning it, a ref
        // parameter cleared with it): what a variable makes of it must not stick to the literal
        "shared_empty_list_literal",
        "=== k@ ===\nNothing yet: {LIST_INVERT(nothing@())} / {LIST_ALL(nothing@())}.\n~ bag@ = nothing@()\nBag {bag@} all {LIST_ALL(bag@)}.\n~ clear@(inv@)\nInv {inv@} inverse {LIST_INVERT(inv@)}.\nStill nothing: {LIST_INVERT(nothing@())}.\n-> NEXT\n=== function nothing@() ===\n~ return ()\n=== function clear@(ref v) ===\n~ v = ()\nGLOB LIST F@ = apple@, banana@\nGLOB LIST T@ = (hammer@), saw@\nGLOB VAR bag@ = (F@.apple@)\nGLOB VAR inv@ = (T@.hammer@)\n",
    ),
    (
        // a thread that leaves only a fallback choice behind, started in the middle of a
        // paragraph: the host stops on the following lines with nothing but an invisible choice
        // pending (evaluate_function, saves and slices meet that state)
        "thread_leaves_fallback_midparagraph",
        "=== k@ ===\nBefore {pure_double@(2)}.\n<- side@\nFirst after.\nSecond after {seen@}.\nThird after.\n* [go on@] -> NEXT\n=== side@ ===\nSide text.\n~ seen@ = seen@ + 1\n* {seen@ > 5} [never@] -> NEXT\n* -> rescue@\n=== rescue@ ===\nRescued. -> NEXT\n=== function pure_double@(pval@) ===\n~ return pval@ * 2\n=== function pure_say@(pword@) ===\nSaying {pword@}.\nGLOB VAR seen@ = 0\n",
    ),
    (
        // two threads in a row: the first offers a choice and ends, the second prints several
        // lines, so the host can stop (and save) inside the second thread while a choice of
        // the first is pending
        "two_threads_in_a_row",
        "=== k@ ===\nStart.\n~ temp secret@ = 42\n<- offers@(secret@)\n<- talks@\nEnd of k {secret@}.\n* [main choice@] -> NEXT\n=== offers@(s) ===\nOffer text.\n* [take offer@] Taken {s} {offers@}. -> NEXT\n=== talks@ ===\nTalk one.\nTalk two.\nTalk three.\n-> DONE\n",
    ),
    (
        // two lists, declared in non-alphabetical order, share an item NAME that the story uses
        // without its list: which list it means is fixed by the program (declaration order),
        // not by a loader or a hash order
        "shared_item_name_bare",
        "=== k@ ===\nBare {both@} is worth {LIST_VALUE(both@)}, then {both@ + 1}.\n~ pick@ = both@\nPicked {pick@} of {LIST_ALL(pick@)}; has {Zed@ ? both@} {Alp@ ? both@}.\n-> NEXT\nGLOB LIST Zed@ = (both@ = 5), zlast@ = 9\nGLOB LIST Alp@ = afirst@ = 1, (both@ = 2), amid@ = 3\nGLOB VAR pick@ = ()\n",
    ),
    (
        // two items of ONE list share a value: which item a number stands for must not depend
        // on hash order (list from number, list + n, list - n, ++, --)
        "list_duplicate_values",
        "=== k@ ===\n~ cur@ = D@.lo\nTwo is {D@(2)} and {D@(2)}, three is {D@(3)}.\n~ cur@ = cur@ + 1\nUp {cur@}: {LIST_ALL(cur@)}.\n~ cur@ = D@.hi - 1\nDown {cur@} {D@.lo + 1} {D@.hi - 1}.\n~ cur@++\n~ cur@--\nBack {cur@} of {LIST_ALL(cur@)}.\n-> NEXT\nGLOB LIST D@ = lo = 1, mid = 2, med = 2, mod = 2, hi = 3\nGLOB VAR cur@ = ()\n",
    ),
    (
        // the hub pattern: a variable divert that leads back into the knot (and the stitch) that
        // contains it, set at declaration and again while playing
        "variable_divert_hub",
        "=== k@ ===\nHub @ {hn@}.\n~ hn@ = hn@ + 1\n+ {hn@ < 3} [again @]\n    -> hnx@\n+ {hn@ < 4} [inner @]\n    -> k@.in@\n* [leave @]\n    -> NEXT\n= in@\nInner @ {hn@}.\n~ hn@ = hn@ + 1\n~ hnx@ = -> k@.in@\n{hn@ < 6:\n    -> hnx@\n}\n~ hnx@ = -> k@\n-> hnx@\nGLOB VAR hnx@ = -> k@\nGLOB VAR hn@ = 0\n",
    ),
    (
        // an external whose Ink fallback calls itself: unbound with fallbacks allowed, the call
        // site inside the function resolves to the function that contains it
        "external_recursive_fallback",
        "=== k@ ===\nCountdown @ {cdown@(2)}.\n-> NEXT\n=== function cdown@(a) ===\n{a <= 0:\n    ~ return 0\n}\n~ return 1 + cdown@(a - 1)\nGLOB EXTERNAL cdown@(a)\n",
    ),
    (
        // functions that take a value of any type (the host evaluates them with ints, bools,
        // floats, strings and with list values it has read back from a global)
        "host_evaluates_any_type",
        "=== k@ ===\nEcho @ {pure_any_echo@(3)} and {pure_any_show@(\"s\")}\nBag @ {anyl@} of {LIST_ALL(anyl@)}.\n~ anyl@ -= Any@.q@\n-> NEXT\n=== function pure_any_echo@(x) ===\n~ return x\n=== function pure_any_show@(x) ===\nGot {x}.\nTwice {x} {x}.\nGLOB LIST Any@ = (p@), q@, r@\nGLOB VAR anyl@ = (Any@.q@, Any@.r@)\n",
    ),
];

pub fn idiom_count() -> usize {
    IDIOMS.len()
}

/// Build a program from 1..=6 idioms chained in a generated order.
pub fn gen_idiom_program(t: &mut Tape) -> (String, Vec<&'static str>) {
    let n = 1 + t.pick(6);
    let mut globals = String::new();
    let mut body = String::new();
    let mut used = vec![];
    let mut entry_names = vec![];
    let picks: Vec<usize> = (0..n).map(|_| t.pick(IDIOMS.len())).collect();
    for (i, _) in picks.iter().enumerate() {
        entry_names.push(format!("k{i}"));
    }
    for (i, &k) in picks.iter().enumerate() {
        let (name, tmpl) = IDIOMS[k];
        used.push(name);
        let next = if i + 1 < n {
            entry_names[i + 1].clone()
        } else if t.chance(1, 4) {
            "DONE".to_string()
        } else {
            "END".to_string()
        };
        let inst = tmpl.replace('@', &i.to_string()).replace("NEXT", &next);
        for line in inst.lines() {
            if let Some(g) = line.strip_prefix("GLOB ") {
                globals.push_str(g);
                globals.push('\n');
            } else {
                body.push_str(line);
                body.push('\n');
            }
        }
    }
    let mut src = globals;
    src.push_str("Prologue.\n-> k0\n");
    src.push_str(&body);
    (src, used)
}
