//! C12 — external functions are called as bound: right arguments, order and timing.
use crate::common::*;
use crate::engine::*;
use crate::lockstep::*;
use crate::pgen::Tape;
use crate::rt::*;
use serde_json::{Value as J, json};

const RULE: &str = "generated chain programs with EXTERNAL e0() / e1(a) / e2ab(a,b) (each with an Ink fallback function of \
the same name) called in every syntactic position: logic line before a line (= first statement after the \
previous line end), at the start of a tag on a line of its own, inside line text, inside a string literal assigned to a variable, as an argument of \
another call, in a conditional test, inside an Ink function, after glue, in choice text and in a choice \
condition; arguments are unique per site (literals and a running global), so the by-construction reference \
knows the exact call sequence, the arguments, the text each line must show, and how many lines precede each \
call. Configurations: bound look-ahead-safe; bound unsafe; unbound with fallbacks allowed; unbound with \
fallbacks disallowed; the bound modes also with every line finished by time-limited continues that pause after 1-3 interpreter steps (virtual clock). Oracles: output text equals the reference in all modes; safe: the call log is the \
reference sequence with contiguous blocks possibly repeated (speculative re-execution); unsafe: the log \
equals the reference exactly and every call has lines_delivered >= the number of reference lines before it, \
and a call from string/choice text yields an error, not a call; fallback: no host call, text computed by the \
Ink bodies; disallowed: the first cont() returns Err without panic or call. Non-trivial = path executing >= 1 \
call located directly after a line end or inside a string/choice text; distinct = hash(program, config).";

#[derive(Debug, Clone)]
struct Call {
    name: &'static str,
    args: Vec<i32>,
}

fn ext_value(name: &str, args: &[i32]) -> i32 {
    let a: Vec<String> = args.iter().map(|v| format!("I:{v}")).collect();
    ext_result(name, &a)
}

fn fallback_value(name: &str, args: &[i32]) -> i32 {
    match name {
        "e0" => 5,
        "e1" => args[0] + 1,
        _ => args[0] * 10 + args[1],
    }
}

struct Prog {
    src: String,
    /// reference: calls in execution order with the number of lines delivered before each
    calls: Vec<(Call, usize, bool /*after line end or in string/choice text*/, bool /*in string/choice text*/)>,
    /// expected lines, as functions of the value function
    lines: Vec<Vec<LinePart>>,
    has_string_calls: bool,
}

#[derive(Debug, Clone)]
enum LinePart {
    Text(String),
    Val(Call),
    /// value of e1(e1(x)) style nesting: outer(name, inner call)
    Nested(&'static str, Call),
}

fn call_src(c: &Call) -> String {
    format!(
        "{}({})",
        c.name,
        c.args.iter().map(|a| a.to_string()).collect::<Vec<_>>().join(", ")
    )
}

fn gen_prog(t: &mut Tape, allow_string_calls: bool) -> Prog {
    let n = 2 + t.pick(5);
    let mut src = String::from("EXTERNAL e0()\nEXTERNAL e1(a)\nEXTERNAL e2ab(a, b)\nVAR acc = 0\nVAR sv = \"\"\n-> s0\n");
    let mut calls = vec![];
    let mut lines: Vec<Vec<LinePart>> = vec![];
    let mut has_string_calls = false;
    let mut uniq = 100;
    let mut mk = |t: &mut Tape, uniq: &mut i32| -> Call {
        *uniq += 1;
        match t.pick(3) {
            0 => Call { name: "e1", args: vec![*uniq] },
            1 => Call { name: "e2ab", args: vec![*uniq, t.range(0, 9)] },
            _ => Call { name: "e1", args: vec![*uniq * 2] },
        }
    };
    for i in 0..n {
        src.push_str(&format!("=== s{i} ===\n"));
        // logic line before the line: runs right after the previous line end
        if t.chance(1, 2) {
            let c = mk(t, &mut uniq);
            src.push_str(&format!("~ acc = acc + {}\n", call_src(&c)));
            calls.push((c, lines.len(), i > 0, false));
        }
        if t.chance(1, 5) {
            src.push_str("~ e0()\n");
            // e0 has no unique args: keep at most via counting; model treats e0 by position
            calls.push((Call { name: "e0", args: vec![] }, lines.len(), i > 0, false));
        }
        // string literal with a call inside
        let mut sv_part = None;
        if allow_string_calls && t.chance(1, 4) {
            let c = mk(t, &mut uniq);
            src.push_str(&format!("~ sv = \"<{{{}}}>\"\n", call_src(&c)));
            calls.push((c.clone(), lines.len(), true, true));
            sv_part = Some(c);
            has_string_calls = true;
        }
        // a tag on a line of its own that starts with a call: the first thing evaluated after
        // the previous line end, inside tag brackets (not string evaluation)
        if t.chance(1, 4) {
            let c = mk(t, &mut uniq);
            src.push_str(&format!("# {{{}}}_t\n", call_src(&c)));
            calls.push((c, lines.len(), i > 0, false));
        }
        let mut parts = vec![LinePart::Text(format!("Line {i}"))];
        let mut line_src = format!("Line {i}");
        if t.chance(1, 2) {
            let c = mk(t, &mut uniq);
            line_src.push_str(&format!(" {{{}}}", call_src(&c)));
            parts.push(LinePart::Text(" ".into()));
            parts.push(LinePart::Val(c.clone()));
            calls.push((c, lines.len(), false, false));
        }
        if t.chance(1, 4) {
            // nested: e1(e1(x))
            let inner = mk(t, &mut uniq);
            line_src.push_str(&format!(" {{e1({})}}", call_src(&inner)));
            parts.push(LinePart::Text(" ".into()));
            parts.push(LinePart::Nested("e1", inner.clone()));
            calls.push((inner.clone(), lines.len(), false, false));
            // outer call argument is the inner value: recorded with a marker resolved at compare time
            calls.push((Call { name: "e1#outer", args: inner.args.clone() }, lines.len(), false, false));
            let _ = inner;
        }
        if t.chance(1, 4) {
            // conditional test
            let c = mk(t, &mut uniq);
            line_src.push_str(&format!(" {{{} >= 0:yes|no}}", call_src(&c)));
            parts.push(LinePart::Text(" yes".into()));
            calls.push((c, lines.len(), false, false));
        }
        if let Some(c) = sv_part {
            line_src.push_str(" {sv}");
            parts.push(LinePart::Text(" <".into()));
            parts.push(LinePart::Val(c));
            parts.push(LinePart::Text(">".into()));
        }
        if t.chance(1, 5) {
            // glue then a call on the next source line, same output line
            let c = mk(t, &mut uniq);
            line_src.push_str(" <>\n");
            line_src.push_str(&format!("~ acc = acc + {}\n", call_src(&c)));
            line_src.push_str("tail");
            parts.push(LinePart::Text(" tail".into()));
            calls.push((c, lines.len(), false, false));
        }
        line_src.push_str(" end.\n");
        parts.push(LinePart::Text(" end.".into()));
        src.push_str(&line_src);
        lines.push(parts);
        // call through an ink function
        if t.chance(1, 4) {
            let c = mk(t, &mut uniq);
            src.push_str(&format!("~ acc = acc + via({})\n", c.args[0]));
            calls.push((Call { name: "e1", args: vec![c.args[0]] }, lines.len(), true, false));
        }
        // choice with a call in its text / condition
        if t.chance(1, 3) {
            // Ink evaluates a choice's text before its condition (the compiled choice
            // pushes start/choice-only strings first, the condition last)
            let mut choice = String::from("* ");
            let cond = if t.chance(1, 2) { Some(mk(t, &mut uniq)) } else { None };
            if let Some(c) = &cond {
                choice.push_str(&format!("{{{} >= 0}} ", call_src(c)));
            }
            if allow_string_calls && t.chance(1, 2) {
                let c = mk(t, &mut uniq);
                choice.push_str(&format!("[pick {{{}}}]\n", call_src(&c)));
                calls.push((c, lines.len(), true, true));
                has_string_calls = true;
            } else {
                choice.push_str("[pick]\n");
            }
            if let Some(c) = cond {
                calls.push((c, lines.len(), true, false));
            }
            src.push_str(&choice);
            src.push_str(&format!("    Chosen {i}.\n-\n"));
            lines.push(vec![LinePart::Text(format!("Chosen {i}."))]);
        }
        if i + 1 < n {
            src.push_str(&format!("-> s{}\n", i + 1));
        } else {
            src.push_str("-> END\n");
        }
    }
    src.push_str("=== function via(x) ===\n~ return e1(x)\n");
    src.push_str("=== function e0() ===\n~ return 5\n=== function e1(a) ===\n~ return a + 1\n=== function e2ab(a, b) ===\n{b <= 0:\n    ~ return a * 10\n}\n~ return 1 + e2ab(a, b - 1)\n");
    Prog {
        src,
        calls,
        lines,
        has_string_calls,
    }
}

fn render_lines(lines: &[Vec<LinePart>], val: &dyn Fn(&str, &[i32]) -> i32) -> Vec<String> {
    lines
        .iter()
        .map(|parts| {
            let mut s = String::new();
            for p in parts {
                match p {
                    LinePart::Text(t) => s.push_str(t),
                    LinePart::Val(c) => s.push_str(&val(c.name, &c.args).to_string()),
                    LinePart::Nested(outer, inner) => {
                        let iv = val(inner.name, &inner.args);
                        s.push_str(&val(outer, &[iv]).to_string())
                    }
                }
            }
            s
        })
        .collect()
}

fn reference_log(calls: &[(Call, usize, bool, bool)], val: &dyn Fn(&str, &[i32]) -> i32) -> Vec<(String, Vec<String>, usize)> {
    calls
        .iter()
        .map(|(c, lines, _, _)| {
            if c.name == "e1#outer" {
                // find the inner call (same args) value
                let inner_name = calls
                    .iter()
                    .find(|(x, _, _, _)| x.args == c.args && x.name != "e1#outer")
                    .map(|(x, _, _, _)| x.name)
                    .unwrap_or("e1");
                let iv = val(inner_name, &c.args);
                ("e1".to_string(), vec![format!("I:{iv}")], *lines)
            } else {
                (c.name.to_string(), c.args.iter().map(|a| format!("I:{a}")).collect(), *lines)
            }
        })
        .collect()
}

/// Programs for the last clause of the property (an unbound external makes the FIRST continue
/// fail): one external `ex` that stays unbound while `other` is bound, called from 1-3 generated
/// positions, none of them on the first line: the main flow before the first knot, a knot, stitch,
/// tunnel, thread or function body, a taken or untaken inline conditional branch, a sequence
/// element, a conditional block, a switch case, a tag, choice text, a choice condition, a choice
/// body, a gather, a nested choice.
pub fn unbound_source(tape: &[u16]) -> (String, Vec<usize>) {
    let at = |i: usize| tape.get(i).copied().unwrap_or(0) as usize;
    const NSITES: usize = 18;
    let nsites = 1 + at(0) % 3;
    let mut sites: Vec<usize> = (0..nsites).map(|k| at(1 + k) % NSITES).collect();
    sites.sort();
    sites.dedup();
    let has = |k: usize| sites.contains(&k);
    let call = |k: usize| format!("ex({})", 100 + k);
    let mut s = String::from("EXTERNAL ex(a)\nEXTERNAL other(a)\nVAR v = 0\nVAR w = 0\nFirst line {other(1)}.\n");
    if has(0) {
        s += &format!("~ v = {}\n", call(0));
    }
    if has(1) {
        s += &format!("Root text {{v > 5: {{{}}}|no}}.\n", call(1));
    }
    s += "-> k0\n=== k0 ===\nLine in k0.\n";
    if has(2) {
        s += &format!("~ w = {}\n", call(2));
    }
    if has(3) {
        s += &format!("Taken {{v == 0: {{{}}}|no}}.\n", call(3));
    }
    if has(4) {
        s += &format!("Untaken {{v > 5: {{{}}}|no}}.\n", call(4));
    }
    if has(5) {
        s += &format!("Sequence {{&a|{{{}}}|c}}.\n", call(5));
    }
    if has(6) {
        s += &format!("{{ v > 5:\n    ~ w = {}\n}}\n", call(6));
    }
    if has(7) {
        s += &format!("{{ v:\n- 3:\n    Three {{{}}}.\n- else:\n    Other.\n}}\n", call(7));
    }
    if has(8) {
        s += &format!("Tagged line. # t{{{}}}\n", call(8));
    }
    s += "-> tun ->\n<- thr\n";
    s += &match (has(9), has(10)) {
        (true, true) => format!("* {{{} > 0}} [pick {{{}}}]\n", call(10), call(9)),
        (true, false) => format!("* [pick {{{}}}]\n", call(9)),
        (false, true) => format!("* {{{} > 0}} [pick]\n", call(10)),
        _ => "* [pick]\n".to_string(),
    };
    s += "    Chosen.\n";
    if has(11) {
        s += &format!("    ~ w = {}\n", call(11));
    }
    if has(12) {
        s += &format!("    * * [deeper] Deep {{{}}}.\n    - - Inner gather.\n", call(12));
    }
    s += "* [other]\n    Other chosen.\n";
    if has(13) {
        s += &format!("- Gather {{{}}}.\n", call(13));
    } else {
        s += "- Gather.\n";
    }
    s += "-> k1.st\n=== k1 ===\nUnreached top.\n-> END\n= st\nStitch.\n";
    if has(14) {
        s += &format!("~ w = fn({})\n", 3);
    }
    if has(15) {
        s += &format!("Stitch text {{{}}}.\n", call(15));
    }
    s += "-> END\n=== tun ===\nTunnel.\n";
    if has(16) {
        s += &format!("~ w = {}\n", call(16));
    }
    s += "->->\n=== thr ===\nThread.\n";
    if has(17) {
        s += &format!("+ [thread choice {{{}}}] -> END\n", call(17));
    }
    s += "-> DONE\n=== function fn(x) ===\n";
    if has(14) {
        s += &format!("~ return {} + x\n", call(14));
    } else {
        s += "~ return x\n";
    }
    (s, sites)
}

pub fn exec_unbound(case: &J, acc: &mut Acc) -> Result<(), Fail> {
    inflight(case);
    let src = case["source"].as_str().unwrap_or("");
    let allow = case["allow_fallbacks"].as_bool().unwrap_or(false);
    let (json_text, meta) = compile_src(src).map_err(|e| Fail::harness(format!("C12 unbound-leg program does not compile: {e}\n{src}")))?;
    acc.eval();
    let cfg = HostCfg { handler: false, bind_externals: Some(true), allow_fallbacks: allow, ..HostCfg::default() };
    let r = guard(|| {
        let mut h = Host::new(&json_text, meta.clone(), &cfg).map_err(|e| e.to_string())?;
        h.apply(&HostOp::Unbind("ex".into()));
        h.trace.clear();
        let can = h.story.can_continue();
        let r = h.story.cont();
        let log: Vec<Obs> = h.log.borrow().clone();
        Ok::<_, String>((can, r.map_err(|e| e.to_string()), log))
    });
    let (can, r, log) = match r {
        Err(p) => return Err(panic_fail(&p, "unbound external", case)),
        Ok(Err(e)) => return Err(Fail::harness(format!("Story::new failed: {e}"))),
        Ok(Ok(x)) => x,
    };
    for k in case["sites"].as_array().cloned().unwrap_or_default() {
        acc.class(&format!("unbound_site:{}", k));
    }
    acc.nontrivial(fnv(&case.to_string()));
    if !can {
        return Err(Fail::violation("unbound-not-refused", "a fresh story cannot continue", case.clone()));
    }
    match r {
        Ok(text) => Err(Fail::violation(
            "unbound-not-refused",
            format!("external ex is unbound and has no Ink fallback (fallbacks allowed: {allow}) but the first continue delivered {text:?}"),
            case.clone(),
        )),
        Err(e) => {
            if !e.contains("ex") {
                return Err(Fail::violation("unbound-not-refused", format!("the first continue failed, but not about the unbound external: {e}"), case.clone()));
            }
            if log.iter().any(|o| matches!(o, Obs::Ext { .. })) {
                return Err(Fail::violation("unbound-not-refused", format!("an external was called before the refusal: {log:?}"), case.clone()));
            }
            Ok(())
        }
    }
}

pub fn exec(case: &J, acc: &mut Acc) -> Result<(), Fail> {
    if case["leg"].as_str() == Some("unbound") {
        return exec_unbound(case, acc);
    }
    inflight(case);
    let tape: Vec<u16> = case["tape"]
        .as_array()
        .map(|a| a.iter().filter_map(|x| x.as_u64().map(|v| v as u16)).collect())
        .unwrap_or_default();
    let mode = case["mode"].as_str().unwrap_or("safe").to_string();
    let mut t = Tape::new(&tape);
    let prog = gen_prog(&mut t, mode != "unsafe" || case["string_calls"].as_bool().unwrap_or(false));
    let (json_text, meta) = compile_src(&prog.src).map_err(|e| Fail::harness(format!("C12 program does not compile: {e}\n{}", prog.src)))?;
    acc.eval();
    let cfg = HostCfg {
        handler: false,
        bind_externals: match mode.as_str() {
            "safe" => Some(true),
            "unsafe" => Some(false),
            _ => None,
        },
        allow_fallbacks: mode != "disallowed",
        ..HostCfg::default()
    };
    let sliced = case["sliced"].as_u64().unwrap_or(0) as u32;
    let show = json!({"source": prog.src, "mode": mode, "sliced": sliced});
    let fail = |key: &str, msg: String| {
        let mut c = case.clone();
        c["shown"] = show.clone();
        Fail::violation(key, msg, c)
    };
    let r = guard(|| {
        let mut h = Host::new(&json_text, meta.clone(), &cfg).map_err(|e| e.to_string())?;
        for _ in 0..40 {
            if h.story.can_continue() {
                if sliced > 0 {
                    // the line is finished by time-limited continues that pause after `sliced`
                    // interpreter steps each (virtual clock)
                    let mut n = 0;
                    loop {
                        h.apply(&HostOp::Slice(sliced));
                        n += 1;
                        if !h.story.verif_async_active() || n > 5000 {
                            break;
                        }
                    }
                } else {
                    h.apply(&HostOp::Continue);
                }
                if matches!(h.trace.last(), Some(Obs::Err { .. })) || h.trace.iter().rev().take(2).any(|o| matches!(o, Obs::Err { .. })) {
                    break;
                }
            } else if !h.story.get_current_choices().is_empty() {
                h.apply(&HostOp::Choose(0));
            } else {
                break;
            }
        }
        Ok::<_, String>((h.trace.clone(), h.fuel_exhausted()))
    });
    let (trace, fuel) = match r {
        Err(p) => return Err(panic_fail(&p, &format!("externals ({mode})"), case)),
        Ok(Err(e)) => return Err(Fail::harness(format!("Story::new failed: {e}"))),
        Ok(Ok(x)) => x,
    };
    if fuel {
        acc.discard("fuel");
        return Ok(());
    }
    let log: Vec<(String, Vec<String>, usize)> = trace
        .iter()
        .filter_map(|o| match o {
            Obs::Ext { name, args, lines } => Some((name.clone(), args.clone(), *lines)),
            _ => None,
        })
        .collect();
    let out_lines: Vec<String> = trace
        .iter()
        .filter_map(|o| match o {
            Obs::Line { text, .. } => Some(text.trim().to_string()),
            _ => None,
        })
        .filter(|l| !l.is_empty())
        .collect();
    let errs: Vec<String> = trace
        .iter()
        .filter_map(|o| match o {
            Obs::Err { msg, .. } => Some(msg.clone()),
            _ => None,
        })
        .collect();
    if prog.calls.iter().any(|c| c.2) {
        acc.nontrivial(fnv(&format!("{}{mode}", prog.src)));
    }
    acc.class(&format!("mode:{mode}"));
    match mode.as_str() {
        "disallowed" => {
            if errs.is_empty() {
                return Err(fail("unbound-not-refused", format!("externals are unbound and fallbacks disallowed but the story played: {:?}", show_trace(&trace))));
            }
            if !log.is_empty() || !out_lines.is_empty() {
                return Err(fail("unbound-not-refused", format!("output or calls before the refusal: {:?}", show_trace(&trace))));
            }
            return Ok(());
        }
        "fallback" => {
            if !errs.is_empty() {
                return Err(fail("fallback-error", format!("fallbacks allowed and present, yet an error: {errs:?}")));
            }
            if !log.is_empty() {
                return Err(fail("fallback-called-host", format!("unbound externals reached the host: {log:?}")));
            }
            let want = render_lines(&prog.lines, &fallback_value);
            if out_lines != want {
                return Err(fail("fallback-output", format!("output with Ink fallbacks differs: got {out_lines:?} want {want:?}")));
            }
            return Ok(());
        }
        _ => {}
    }
    let unsafe_mode = mode == "unsafe";
    if unsafe_mode && prog.has_string_calls {
        // a call from inside a string / choice text must be refused with an error, not made
        if errs.is_empty() {
            return Err(fail("unsafe-string-call-not-refused", format!("an unsafe external was called from string/choice text without an error; log {log:?}")));
        }
        for (c, _, _, in_string) in &prog.calls {
            if *in_string && log.iter().any(|l| l.0 == c.name && l.1 == c.args.iter().map(|a| format!("I:{a}")).collect::<Vec<_>>()) {
                return Err(fail("unsafe-string-call-made", format!("unsafe external {} was executed from inside a string/choice text", call_src(c))));
            }
        }
        acc.class("unsafe_string_call_refused");
        return Ok(());
    }
    if !errs.is_empty() {
        return Err(fail("unexpected-error", format!("bound externals, yet an error: {errs:?}")));
    }
    let want = render_lines(&prog.lines, &ext_value);
    if out_lines != want {
        return Err(fail("output-differs", format!("output differs from the reference: got {out_lines:?} want {want:?}")));
    }
    let reference = reference_log(&prog.calls, &ext_value);
    if unsafe_mode {
        let got: Vec<(String, Vec<String>)> = log.iter().map(|l| (l.0.clone(), l.1.clone())).collect();
        let wantc: Vec<(String, Vec<String>)> = reference.iter().map(|l| (l.0.clone(), l.1.clone())).collect();
        if got != wantc {
            return Err(fail("unsafe-call-sequence", format!("unsafe externals must run exactly once per executed call, in order: got {got:?} want {wantc:?}")));
        }
        for (l, r) in log.iter().zip(reference.iter()) {
            if l.2 < r.2 {
                return Err(fail("unsafe-call-too-early", format!("unsafe external {}({:?}) ran when only {} lines had been delivered; {} lines precede it", l.0, l.1, l.2, r.2)));
            }
        }
    } else {
        // safe: reference with contiguous blocks possibly repeated
        let mut j = 0usize;
        for l in &log {
            let key = (l.0.clone(), l.1.clone());
            if j < reference.len() && (reference[j].0.clone(), reference[j].1.clone()) == key {
                j += 1;
            } else if let Some(pos) = reference[..j.min(reference.len())]
                .iter()
                .rposition(|r| (r.0.clone(), r.1.clone()) == key)
            {
                j = pos + 1;
            } else {
                return Err(fail("safe-call-sequence", format!("call {key:?} does not fit the reference sequence (position {j}): log {log:?} reference {reference:?}")));
            }
        }
        if j != reference.len() {
            return Err(fail("safe-call-sequence", format!("calls missing: log {log:?} reference {reference:?}")));
        }
    }
    Ok(())
}

pub fn run(env: &Env) -> i32 {
    let mut rep = Report::new("exploration", RULE);
    rep.assumptions = vec![
        "the reference is by construction of the chain programs (call order = source order along the only path; values from a pure stub / the Ink fallback bodies)".into(),
        "the stub is pure in its arguments, so speculative re-execution under look-ahead-safe binding cannot change output".into(),
    ];
    if let Some(p) = &env.replay {
        return match load_replay_case(p) {
            Ok((_, case)) => {
                let mut acc = Acc::default();
                if let Err(f) = exec(&case, &mut acc) {
                    rep.fails.push(f);
                }
                rep.acc.merge(acc);
                finish(env, rep)
            }
            Err(e) => {
                println!("cannot load replay: {e}");
                2
            }
        };
    }
    replay_saved(env, &mut rep, &exec);
    let n = env.cases(60000, 600000);
    let r = run_cases(
        env,
        1,
        n,
        || proptest::collection::vec(proptest::num::u16::ANY, 0..200),
        |tape: &Vec<u16>, acc: &mut Acc| {
            let step = 1 + (tape.last().copied().unwrap_or(0) % 3) as u64;
            for (mode, sc, sliced) in [("safe", true, 0), ("unsafe", false, 0), ("unsafe", true, 0), ("fallback", true, 0), ("disallowed", true, 0), ("unsafe", false, step), ("safe", true, step)] {
                let case = json!({"tape": tape, "mode": mode, "string_calls": sc, "sliced": sliced});
                acc.sample(|| {
                    let mut t = Tape::new(tape);
                    json!({"mode": mode, "source": gen_prog(&mut t, true).src})
                });
                exec(&case, acc)?;
            }
            Ok(())
        },
    );
    rep.absorb(r);
    // unbound leg
    let n2 = env.cases(6000, 60000);
    let r = run_cases(
        env,
        2,
        n2,
        || proptest::collection::vec(proptest::num::u16::ANY, 0..6),
        |tape: &Vec<u16>, acc: &mut Acc| {
            let (src, sites) = unbound_source(tape);
            let allow = tape.get(4).map(|v| v & 1 == 1).unwrap_or(false);
            let case = json!({"leg": "unbound", "source": src, "sites": sites, "allow_fallbacks": allow});
            acc.sample(|| case.clone());
            exec_unbound(&case, acc)
        },
    );
    rep.absorb(r);
    let _ = tail(0, 0);
    finish(env, rep)
}
