//! Structural and textual mutators for JSON documents (C15) driven by a tape.
use crate::pgen::Tape;
use serde_json::{Value as J, json};

#[derive(Clone, Debug)]
enum Step {
    Key(String),
    Idx(usize),
}

fn collect(v: &J, cur: &mut Vec<Step>, out: &mut Vec<Vec<Step>>, budget: &mut usize) {
    if *budget == 0 {
        return;
    }
    *budget -= 1;
    out.push(cur.clone());
    match v {
        J::Object(o) => {
            for (k, c) in o {
                cur.push(Step::Key(k.clone()));
                collect(c, cur, out, budget);
                cur.pop();
            }
        }
        J::Array(a) => {
            for (i, c) in a.iter().enumerate() {
                cur.push(Step::Idx(i));
                collect(c, cur, out, budget);
                cur.pop();
            }
        }
        _ => {}
    }
}

fn get_mut<'a>(v: &'a mut J, path: &[Step]) -> Option<&'a mut J> {
    let mut cur = v;
    for s in path {
        cur = match s {
            Step::Key(k) => cur.as_object_mut()?.get_mut(k)?,
            Step::Idx(i) => cur.as_array_mut()?.get_mut(*i)?,
        };
    }
    Some(cur)
}

fn replacement(t: &mut Tape) -> J {
    match t.pick(22) {
        0 => J::Null,
        1 => json!(true),
        2 => json!(false),
        3 => json!(0),
        4 => json!(-1),
        5 => json!(2147483647i64),
        6 => json!(2147483648i64),
        7 => json!(-2147483649i64),
        8 => json!(9223372036854775807i64),
        9 => json!(1.0e308),
        10 => json!(0.5),
        11 => json!(""),
        12 => json!("^"),
        13 => json!("x"),
        14 => json!("\n"),
        15 => json!([]),
        16 => json!({}),
        17 => json!([[]]),
        18 => json!([null]),
        19 => json!("ev"),
        20 => json!({"->": "nowhere.at.all"}),
        _ => json!(18446744073709551615u64),
    }
}

const NEAR_KEYS: &[&str] = &[
    "inkVersion", "root", "listDefs", "->", "f()", "->t->", "x()", "var", "c", "exArgs", "*", "flg",
    "VAR?", "VAR=", "temp=", "re", "CNT?", "#", "#f", "#n", "list", "origins", "^->", "^var", "ci",
    "flows", "currentFlowName", "variablesState", "evalStack", "visitCounts", "turnIndices", "turnIdx",
    "storySeed", "previousRandom", "inkSaveVersion", "callstack", "threads", "threadCounter",
    "outputStream", "currentChoices", "choiceThreads", "cPath", "idx", "exp", "type", "temp",
    "threadIndex", "previousContentObject", "text", "index", "originalChoicePath",
    "originalThreadIndex", "targetPath", "tags", "currentDivertTarget",
];

/// apply one structural mutation in place; returns a short description
pub fn mutate_tree(v: &mut J, t: &mut Tape) -> String {
    let mut paths = vec![];
    let mut budget = 4000;
    collect(v, &mut vec![], &mut paths, &mut budget);
    if paths.is_empty() {
        return "none".into();
    }
    let path = paths[t.pick(paths.len())].clone();
    let op = t.pick(9);
    match op {
        0 => {
            // delete the node from its parent
            if let Some((last, parent)) = path.split_last() {
                if let Some(p) = get_mut(v, parent) {
                    match (p, last) {
                        (J::Object(o), Step::Key(k)) => {
                            o.remove(k);
                        }
                        (J::Array(a), Step::Idx(i)) => {
                            if *i < a.len() {
                                a.remove(*i);
                            }
                        }
                        _ => {}
                    }
                }
            }
            "delete".into()
        }
        1 => {
            // duplicate within an array parent
            if let Some((Step::Idx(i), parent)) = path.split_last() {
                if let Some(J::Array(a)) = get_mut(v, parent) {
                    if *i < a.len() {
                        let c = a[*i].clone();
                        a.insert(*i, c);
                    }
                }
            }
            "duplicate".into()
        }
        2 => {
            // swap with a sibling
            if let Some((Step::Idx(i), parent)) = path.split_last() {
                if let Some(J::Array(a)) = get_mut(v, parent) {
                    if a.len() >= 2 && *i < a.len() {
                        let j = t.pick(a.len());
                        a.swap(*i, j);
                    }
                }
            }
            "swap".into()
        }
        3 | 4 | 5 => {
            let r = replacement(t);
            if let Some(n) = get_mut(v, &path) {
                *n = r;
            }
            "retype".into()
        }
        6 => {
            // rename a key to a near miss / another known key
            if let Some((Step::Key(k), parent)) = path.split_last() {
                if let Some(J::Object(o)) = get_mut(v, parent) {
                    if let Some(val) = o.remove(k) {
                        let nk = if t.chance(1, 2) {
                            NEAR_KEYS[t.pick(NEAR_KEYS.len())].to_string()
                        } else {
                            format!("{k}x")
                        };
                        o.insert(nk, val);
                    }
                }
            }
            "rename-key".into()
        }
        7 => {
            // tweak a number / string in place
            if let Some(n) = get_mut(v, &path) {
                match n {
                    J::Number(_) => {
                        *n = [json!(-1), json!(0), json!(1000000), json!(-2147483648i64), json!(4294967296i64), json!(1.5), json!(2147483647), json!(2147483646), json!(1e39), json!(-1e39), json!(1e-50), json!(-0.0), json!(9007199254740993i64), json!(u64::MAX)][t.pick(14)].clone()
                    }
                    J::String(s) => {
                        let variants = [
                            String::new(),
                            format!("^{s}"),
                            s.chars().skip(1).collect(),
                            format!("{s}.9999"),
                            ".^.^.^.^.^".to_string(),
                            "0.999999".to_string(),
                            "\u{0}".to_string(),
                        ];
                        *s = variants[t.pick(variants.len())].clone();
                    }
                    _ => {}
                }
            }
            "tweak".into()
        }
        _ => {
            // wrap the node into an array / object
            if let Some(n) = get_mut(v, &path) {
                let old = n.take();
                *n = if t.chance(1, 2) { json!([old]) } else { json!({"#n": "x", "k": old}) };
            }
            "wrap".into()
        }
    }
}

/// textual mutations of a document
pub fn mutate_text(s: &str, t: &mut Tape) -> (String, String) {
    let bytes = s.as_bytes();
    match t.pick(6) {
        0 => {
            let cut = t.pick(bytes.len().max(1));
            (String::from_utf8_lossy(&bytes[..cut]).into_owned(), format!("truncate@{cut}"))
        }
        1 => {
            let depth = [10usize, 100, 1000, 10000, 100000][t.pick(5)];
            let open = if t.chance(1, 2) { "[" } else { "{\"a\":" };
            (open.repeat(depth), format!("nesting-bomb {open}x{depth}"))
        }
        2 => {
            let mut b = bytes.to_vec();
            let n = 1 + t.pick(4);
            for _ in 0..n {
                if b.is_empty() {
                    break;
                }
                let i = t.pick(b.len());
                b[i] = t.next() as u8;
            }
            (String::from_utf8_lossy(&b).into_owned(), "byte-flip".into())
        }
        3 => {
            let n = t.pick(64);
            let v: Vec<u8> = (0..n).map(|_| t.next() as u8).collect();
            (String::from_utf8_lossy(&v).into_owned(), "random-bytes".into())
        }
        4 => {
            // a deep but valid-looking story / save shell
            let depth = [50usize, 500, 5000, 50000][t.pick(4)];
            let inner = format!("{}{}", "[".repeat(depth), "]".repeat(depth));
            (
                format!("{{\"inkVersion\":21,\"root\":[{inner},\"done\",null],\"listDefs\":{{}}}}"),
                format!("deep-root x{depth}"),
            )
        }
        _ => {
            let mut b = bytes.to_vec();
            if !b.is_empty() {
                let i = t.pick(b.len());
                let j = (i + 1 + t.pick(20)).min(b.len());
                b.drain(i..j);
            }
            (String::from_utf8_lossy(&b).into_owned(), "delete-span".into())
        }
    }
}

const TOKENS: &[&str] = &[
    "->", "<-", "<>", "*", "+", "-", "=", "==", "===", "~", "{", "}", "[", "]", "(", ")", "|", ":", "#", "//", "/*", "*/",
    "VAR", "CONST", "LIST", "EXTERNAL", "temp", "return", "function", "INCLUDE", "not", "and", "or", "mod", "ref", "else",
    "DONE", "END", "->->", "TURNS_SINCE", "CHOICE_COUNT", "RANDOM", "LIST_COUNT", "true", "false", "&", "!", "?", ",", ".",
    "\"", "\\", "<", ">", "<=", ">=", "!=", "&&", "||", "%", "/", "^", "$", "@", "\t", "  ",
];
const IDENTS: &[&str] = &["knot", "a", "b", "x", "stitch", "f", "lst", "item", "k1", "12", "_u", "é", "END", "t0"];
const LITS: &[&str] = &["0", "1", "42", "-3", "2.5", "\"str\"", "2147483648", "0.0000001", "1e9", "९"];

/// random token soup over Ink's punctuation and keywords
pub fn token_soup(t: &mut Tape) -> String {
    let n = 1 + t.pick(60);
    let mut s = String::new();
    for _ in 0..n {
        match t.pick(10) {
            0 | 1 | 2 | 3 | 4 => s.push_str(TOKENS[t.pick(TOKENS.len())]),
            5 | 6 => s.push_str(IDENTS[t.pick(IDENTS.len())]),
            7 => s.push_str(LITS[t.pick(LITS.len())]),
            8 => s.push('\n'),
            _ => s.push_str("word"),
        }
        match t.pick(4) {
            0 => {}
            1 | 2 => s.push(' '),
            _ => s.push('\n'),
        }
    }
    s
}

const ODD_CHARS: &[char] = &['é', '\u{301}', '😀', '\r', '\0', '\u{2028}', '\t', '{', '}', '[', ']', '(', ')', '|', '"', '\\', '-', '>', '<', '*', '+', '=', '~', '#', ':', '/', '\u{feff}', '日'];

/// character/line level mutation of an Ink source
pub fn mutate_source_text(src: &str, other: &str, t: &mut Tape) -> (String, String) {
    let mut chars: Vec<char> = src.chars().collect();
    let mut what = vec![];
    let n = 1 + t.pick(4);
    for _ in 0..n {
        match t.pick(14) {
            12 => {
                // a number literal out of the ordinary: replace one run of digits (or insert at
                // a random place) with a huge, tiny, signed, dotted or malformed number
                const NUMS: [&str; 14] = [
                    "2147483647",
                    "-2147483648",
                    "99999999999999999999",
                    "333333333333333333333333333333333333333333333333333333.5",
                    "0.000000000000000000000000000000000000000000000000000001",
                    "2147483648",
                    "-2147483649",
                    "1.",
                    ".5",
                    "1.2.3",
                    "1e40",
                    "0x10",
                    "00000000000",
                    "4.0e",
                ];
                let num: Vec<char> = NUMS[t.pick(NUMS.len())].chars().collect();
                let starts: Vec<usize> = (0..chars.len())
                    .filter(|&i| chars[i].is_ascii_digit() && (i == 0 || !chars[i - 1].is_ascii_digit()))
                    .collect();
                if !starts.is_empty() && t.chance(3, 4) {
                    let i = starts[t.pick(starts.len())];
                    let mut j = i;
                    while j < chars.len() && (chars[j].is_ascii_digit() || chars[j] == '.') {
                        j += 1;
                    }
                    chars.splice(i..j, num);
                } else {
                    let i = t.pick(chars.len() + 1);
                    chars.splice(i..i, num);
                }
                // ... and now and then the values of a LIST declaration: one item gets an extreme
                // explicit value and the item after it loses its own, so that its value follows
                if t.chance(1, 3) {
                    let text: String = chars.iter().collect();
                    let mut lines: Vec<String> = text.split('\n').map(|l| l.to_string()).collect();
                    let list_lines: Vec<usize> = (0..lines.len()).filter(|&i| lines[i].trim_start().starts_with("LIST") && lines[i].contains('=')).collect();
                    if !list_lines.is_empty() {
                        let li = list_lines[t.pick(list_lines.len())];
                        let line = lines[li].clone();
                        let eq = line.find('=').unwrap();
                        let mut items: Vec<String> = line[eq + 1..].split(',').map(|x| x.trim().to_string()).collect();
                        let k = t.pick(items.len());
                        let big = ["2147483647", "2147483646", "2147483648", "4294967295", "4294967296", "0", "-1"][t.pick(7)];
                        let strip = |it: &str| -> (String, bool) {
                            let sel = it.starts_with('(');
                            let inner = it.trim_start_matches('(').trim_end_matches(')');
                            (inner.split('=').next().unwrap_or("").trim().to_string(), sel)
                        };
                        let (nm, sel) = strip(&items[k]);
                        items[k] = if sel { format!("({nm} = {big})") } else { format!("{nm} = {big}") };
                        if k + 1 < items.len() {
                            let (nm, sel) = strip(&items[k + 1]);
                            items[k + 1] = if sel { format!("({nm})") } else { nm };
                        }
                        lines[li] = format!("{}= {}", &line[..eq], items.join(", "));
                        chars = lines.join("\n").chars().collect();
                    }
                }
                what.push("number");
            }
            11 => {
                // a backslash escape in front of an ordinary, a structural or a multi-byte
                // character, preferably inside braces / brackets / quotes / tags
                let spots: Vec<usize> = chars
                    .iter()
                    .enumerate()
                    .filter(|(_, c)| matches!(c, '{' | '|' | '[' | '"' | '#' | ':'))
                    .map(|(i, _)| i + 1)
                    .collect();
                let i = if !spots.is_empty() && t.chance(2, 3) {
                    spots[t.pick(spots.len())]
                } else {
                    t.pick(chars.len() + 1)
                };
                let c = ['é', '日', '😀', '{', '|', '}', '#', ' ', 'n', '\\', '\u{301}'][t.pick(11)];
                chars.insert(i, c);
                chars.insert(i, '\\');
                what.push("escape");
            }
            0 => {
                // byte flip (through lossy utf-8)
                let mut b: Vec<u8> = chars.iter().collect::<String>().into_bytes();
                if !b.is_empty() {
                    let i = t.pick(b.len());
                    b[i] ^= 1 << t.pick(8);
                }
                chars = String::from_utf8_lossy(&b).chars().collect();
                what.push("byte-flip");
            }
            1 => {
                let i = t.pick(chars.len() + 1);
                chars.insert(i, ODD_CHARS[t.pick(ODD_CHARS.len())]);
                what.push("insert-char");
            }
            2 => {
                if !chars.is_empty() {
                    let i = t.pick(chars.len());
                    chars.remove(i);
                }
                what.push("delete-char");
            }
            3 => {
                if !chars.is_empty() {
                    let i = t.pick(chars.len());
                    let c = chars[i];
                    chars.insert(i, c);
                }
                what.push("dup-char");
            }
            4 | 5 | 6 => {
                let s: String = chars.iter().collect();
                let mut lines: Vec<&str> = s.split('\n').collect();
                if !lines.is_empty() {
                    let i = t.pick(lines.len());
                    match t.pick(3) {
                        0 => {
                            lines.remove(i);
                        }
                        1 => {
                            let l = lines[i];
                            lines.insert(i, l);
                        }
                        _ => {
                            let j = t.pick(lines.len());
                            lines.swap(i, j);
                        }
                    }
                }
                chars = lines.join("\n").chars().collect();
                what.push("line-op");
            }
            7 => {
                // splice with another source
                let o: Vec<char> = other.chars().collect();
                let cut_a = t.pick(chars.len() + 1);
                let cut_b = t.pick(o.len() + 1);
                chars.truncate(cut_a);
                chars.extend_from_slice(&o[cut_b..]);
                what.push("splice");
            }
            8 => {
                let i = t.pick(chars.len() + 1);
                let open = ['{', '[', '(', '"'][t.pick(4)];
                let depth = [1usize, 3, 30, 300][t.pick(4)];
                for _ in 0..depth {
                    chars.insert(i, open);
                }
                what.push("open-brackets");
            }
            9 => {
                let i = t.pick(chars.len() + 1);
                let long: Vec<char> = "lorem ipsum ".repeat([10usize, 200, 3000][t.pick(3)]).chars().collect();
                for (k, c) in long.into_iter().enumerate() {
                    chars.insert(i + k, c);
                }
                what.push("long-line");
            }
            10 => {
                let inc = ["INCLUDE nothing.ink\n", "INCLUDE <source>\n", "INCLUDE \n", "INCLUDE ../../../etc/passwd\n"][t.pick(4)];
                let i = 0;
                for (k, c) in inc.chars().enumerate() {
                    chars.insert(i + k, c);
                }
                what.push("include");
            }
            _ => {
                // rename one identifier occurrence to an unknown name
                let s: String = chars.iter().collect();
                let words: Vec<(usize, &str)> = s
                    .match_indices(|c: char| c.is_alphanumeric() || c == '_')
                    .map(|(i, _)| i)
                    .fold(vec![], |mut acc: Vec<(usize, usize)>, i| {
                        if let Some(last) = acc.last_mut() {
                            if last.1 == i {
                                last.1 = i + s[i..].chars().next().map(|c| c.len_utf8()).unwrap_or(1);
                                return acc;
                            }
                        }
                        acc.push((i, i + s[i..].chars().next().map(|c| c.len_utf8()).unwrap_or(1)));
                        acc
                    })
                    .into_iter()
                    .map(|(a, b)| (a, &s[a..b]))
                    .collect();
                if !words.is_empty() {
                    let (pos, w) = words[t.pick(words.len())];
                    // ... or to a reserved word / another identifier of the same source: names
                    // where a knot, function or variable is expected (`<- DONE`, `-> END ->`,
                    // `~ END()`, `VAR x = -> DONE`)
                    let other_word = words[t.pick(words.len())].1;
                    let name = match t.pick(8) {
                        0 | 1 | 2 => "zz_unknown",
                        3 => "END",
                        4 => "DONE",
                        5 => ["else", "function", "not", "true", "temp", "return"][t.pick(6)],
                        _ => other_word,
                    };
                    let repl = format!("{}{}", &s[..pos], name);
                    let rest = &s[pos + w.len()..];
                    chars = format!("{repl}{rest}").chars().collect();
                }
                what.push("rename-identifier");
            }
        }
    }
    (chars.into_iter().collect(), what.join("+"))
}
