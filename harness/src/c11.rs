//! C11 — variable observers see each committed change once, with the final value.
use crate::common::*;
use crate::engine::*;
use crate::lockstep::*;
use crate::pgen::Profile;
use crate::rt::*;
use serde_json::{Value as J, json};
use std::collections::{BTreeMap, BTreeSet};

const RULE: &str = "generated programs with assignments before, between and after line ends (look-ahead stressors), \
inside functions, tunnels, threads and choice bodies, under generated histories of continue (one line per \
call, either blocking or as time-limited slices of 1-9 interpreter steps), choose, set_variable, observe/unobserve (3 observer objects, shared and distinct variables), reset, \
save/load and flow switches, with an error handler installed. Oracle = polling model: around every continue \
all globals are read with get_variable before and after; for every registered (observer, variable) pair the \
number of notifications in that continue is <= 1, exactly 1 if the polled value changed, every notification \
carries the value polled after the continue, no notification reaches an unregistered pair or names a variable \
the program never assigns; set_variable between continues notifies every current observer of that variable \
exactly once, immediately, with the set value; after remove_variable_observer the pair gets nothing; \
registrations survive reset_state and load_state. Non-trivial = history with >= 1 notified change and >= 1 \
continue in which an observed variable was assigned in look-ahead that was rewound (value unchanged by this \
continue, changed by the next); distinct = hash(program, history).";

fn assigned_vars(src: &str) -> BTreeSet<String> {
    let mut s = BTreeSet::new();
    for line in src.lines() {
        let l = line.trim();
        if let Some(rest) = l.strip_prefix("~ ") {
            if let Some(name) = rest.split_whitespace().next() {
                if name != "temp" && name != "return" {
                    s.insert(name.to_string());
                }
            }
        }
    }
    s
}

pub fn exec(case: &J, acc: &mut Acc) -> Result<(), Fail> {
    inflight(case);
    let (json_text, meta) = case_story(case)?;
    let src = case["source"].as_str().unwrap_or("").to_string();
    let cfg = cfg_from_json(&case["cfg"]);
    let ops = ops_from_json(&case["ops"]);
    let mut assigned = assigned_vars(&src);
    if src.contains("(ref ") {
        // a variable passed by reference is assigned by the callee: every global may be
        for g in &meta.globals {
            assigned.insert(g.clone());
        }
    }
    acc.eval();
    let fail = |key: &str, msg: String| Fail::violation(key, msg, case.clone());
    let r = guard(|| -> Result<(bool, bool, bool, bool), Result<Fail, String>> {
        let mut h = Host::new(&json_text, meta.clone(), &cfg).map_err(|e| Err(e.to_string()))?;
        let mut reg: BTreeSet<(usize, String)> = BTreeSet::new();
        let poll = |h: &Host| -> BTreeMap<String, String> {
            h.meta
                .globals
                .iter()
                .map(|g| (g.clone(), render_opt_value(&h.story.get_variable(g))))
                .collect()
        };
        let refused_calls = case["refused_calls"].as_bool().unwrap_or(false);
        let mut refused_seen = false;
        let mut any_change = false;
        let mut prev_unchanged_then_changed = false;
        let mut last_continue_unchanged: BTreeSet<String> = BTreeSet::new();
        for (i, op) in ops.iter().enumerate() {
            match op {
                HostOp::Continue | HostOp::Slice(_) => {
                    if !h.story.can_continue() {
                        // a host may call continue when the story cannot: the call is refused,
                        // and observers must go on working afterwards
                        if refused_calls {
                            h.log.borrow_mut().clear();
                            let r = if matches!(op, HostOp::Slice(_)) {
                                h.story.continue_async(1.0).map(|_| String::new())
                            } else {
                                h.story.cont()
                            };
                            if r.is_err() {
                                refused_seen = true;
                            }
                            if h.log.borrow().iter().any(|o| matches!(o, Obs::Notify { .. })) {
                                return Err(Ok(fail("notified-by-refused-continue", format!("op {i}: a continue that was refused notified an observer"))));
                            }
                        }
                        continue;
                    }
                    let before = poll(&h);
                    h.log.borrow_mut().clear();
                    // one outermost continue: a blocking cont(), or time-limited slices of
                    // `b` interpreter steps each (virtual clock) until the line is complete
                    let r = if let HostOp::Slice(b) = op {
                        let mut res = Ok(String::new());
                        let mut guard_n = 0;
                        loop {
                            h.story.verif_set_async_step_budget(Some((*b).max(1)));
                            let r = h.story.continue_async(1.0e9);
                            h.story.verif_set_async_step_budget(None);
                            guard_n += 1;
                            if let Err(e) = r {
                                res = Err(e);
                                break;
                            }
                            if !h.story.verif_async_active() {
                                res = h.story.get_current_text();
                                break;
                            }
                            // nothing may be notified while the continue is unfinished
                            if h.log.borrow().iter().any(|o| matches!(o, Obs::Notify { .. })) {
                                return Err(Ok(fail("notified-before-continue-completed", format!("op {i}: an observer was notified while a time-limited continue was still unfinished"))));
                            }
                            if guard_n > 5000 {
                                break;
                            }
                        }
                        res
                    } else {
                        h.story.cont()
                    };
                    let after = poll(&h);
                    let log: Vec<Obs> = h.log.borrow_mut().drain(..).collect();
                    if r.is_err() {
                        // with a handler installed continue only fails for host-level reasons
                        continue;
                    }
                    let mut counts: BTreeMap<(usize, String), Vec<String>> = BTreeMap::new();
                    for o in &log {
                        if let Obs::Notify { obs, var, value } = o {
                            counts.entry((*obs, var.clone())).or_default().push(value.clone());
                        }
                    }
                    for ((o, v), vals) in &counts {
                        if !reg.contains(&(*o, v.clone())) {
                            return Err(Ok(fail("notified-unregistered", format!("op {i}: observer {o} was notified about {v} without being registered for it"))));
                        }
                        if vals.len() > 1 {
                            return Err(Ok(fail("notified-twice", format!("op {i}: observer {o} got {} notifications for {v} in one continue: {vals:?}", vals.len()))));
                        }
                        if Some(&vals[0]) != after.get(v) {
                            return Err(Ok(fail("notified-stale-value", format!("op {i}: observer {o} was told {v} = {} but after the continue get_variable says {:?} (before: {:?})", vals[0], after.get(v), before.get(v)))));
                        }
                        if !assigned.contains(v) && !src.is_empty() {
                            return Err(Ok(fail("notified-never-assigned", format!("op {i}: {v} is never assigned by the program but was notified"))));
                        }
                    }
                    let mut now_unchanged = BTreeSet::new();
                    for (o, v) in &reg {
                        let changed = before.get(v) != after.get(v);
                        if changed {
                            any_change = true;
                            if last_continue_unchanged.contains(v) {
                                prev_unchanged_then_changed = true;
                            }
                            if !counts.contains_key(&(*o, v.clone())) {
                                return Err(Ok(fail("change-not-notified", format!("op {i}: {v} changed from {:?} to {:?} during the continue but observer {o} was not notified", before.get(v), after.get(v)))));
                            }
                        } else {
                            now_unchanged.insert(v.clone());
                        }
                    }
                    last_continue_unchanged = now_unchanged;
                }
                HostOp::ChooseMod(_) | HostOp::SwitchFlow(_) | HostOp::SwitchDefault | HostOp::Save | HostOp::LoadLast => {
                    h.log.borrow_mut().clear();
                    h.apply(op);
                    let n = h.trace.iter().filter(|o| matches!(o, Obs::Notify { .. })).count();
                    h.trace.clear();
                    if n > 0 {
                        return Err(Ok(fail("notified-outside-continue", format!("op {i} ({op:?}) produced {n} notifications"))));
                    }
                }
                HostOp::Reset => {
                    h.apply(op);
                    h.trace.clear();
                    last_continue_unchanged.clear();
                }
                HostOp::SetVar(name, a) => {
                    h.log.borrow_mut().clear();
                    let r = h.story.set_variable(name, &a.to_value());
                    let log: Vec<Obs> = h.log.borrow_mut().drain(..).collect();
                    if r.is_err() {
                        continue;
                    }
                    let want = render_value(&a.to_value());
                    for (o, v) in &reg {
                        if v != name {
                            continue;
                        }
                        let got: Vec<&Obs> = log
                            .iter()
                            .filter(|x| matches!(x, Obs::Notify { obs, var, .. } if obs == o && var == v))
                            .collect();
                        if got.len() != 1 {
                            return Err(Ok(fail("set-variable-notifications", format!("op {i}: set_variable({name}) notified observer {o} {} times (expected exactly once)", got.len()))));
                        }
                        if let Obs::Notify { value, .. } = got[0] {
                            if *value != want {
                                return Err(Ok(fail("set-variable-notifications", format!("op {i}: set_variable({name}, {want}) notified value {value}"))));
                            }
                        }
                    }
                    for x in &log {
                        if let Obs::Notify { obs, var, .. } = x {
                            if !reg.contains(&(*obs, var.clone())) || var != name {
                                return Err(Ok(fail("notified-unregistered", format!("op {i}: set_variable({name}) notified observer {obs} about {var}"))));
                            }
                        }
                    }
                    last_continue_unchanged.remove(name);
                }
                HostOp::Observe { obs, var } => {
                    if reg.contains(&(*obs, var.clone())) {
                        continue; // the model never registers a pair twice
                    }
                    let o = h.observers[*obs % N_OBSERVERS].clone();
                    if h.story.observe_variable(var, o).is_ok() {
                        reg.insert((*obs, var.clone()));
                    }
                }
                HostOp::Unobserve { obs, var } => {
                    let o = h.observers[*obs % N_OBSERVERS].clone();
                    let r = h.story.remove_variable_observer(&o, var.as_deref());
                    if r.is_ok() {
                        match var {
                            Some(v) => {
                                reg.remove(&(*obs, v.clone()));
                            }
                            None => reg.retain(|(o2, _)| o2 != obs),
                        }
                    }
                }
                _ => {}
            }
        }
        Ok((any_change, prev_unchanged_then_changed || (refused_seen && any_change && false), h.fuel_exhausted(), refused_seen))
    });
    match r {
        Err(p) => Err(panic_fail(&p, "observer history", case)),
        Ok(Err(Ok(f))) => Err(f),
        Ok(Err(Err(_))) => {
            acc.discard("story_new_failed");
            Ok(())
        }
        Ok(Ok((any_change, rewound, fuel, refused_seen))) => {
            if refused_seen {
                acc.class("history_with_refused_continue");
            }
            if fuel {
                acc.discard("fuel");
                return Ok(());
            }
            if any_change {
                acc.class("history_with_notified_change");
            }
            if rewound {
                acc.class("history_with_rewound_lookahead_assignment");
            }
            if any_change && rewound {
                acc.nontrivial(fnv(&case.to_string()));
            }
            Ok(())
        }
    }
}

pub fn run(env: &Env) -> i32 {
    let mut rep = Report::new("exploration", RULE);
    rep.assumptions = vec![
        "the model never registers the same (observer, variable) pair twice".into(),
        "notifications made during reset_state (re-running the global declarations) are not constrained by the property and not judged".into(),
        "a notification for a variable whose polled value is unchanged is allowed (at most one): the engine documents that a change-and-change-back still notifies".into(),
        "an error handler is installed so that continues with story errors still return Ok".into(),
    ];
    if let Some(p) = &env.replay {
        return match load_replay_case(p) {
            Ok((_, case)) => {
                let mut acc = Acc::default();
                if let Err(f) = exec(&case, &mut acc) {
                    rep.fails.push(f);
                }
                rep.acc.merge(acc);
                finish(env, rep)
            }
            Err(e) => {
                println!("cannot load replay: {e}");
                2
            }
        };
    }
    replay_saved(env, &mut rep, &exec);
    let prof = Profile {
        externals: false,
        lists: false,
        ..Profile::default()
    };
    let hp = HistProfile {
        cont: 50,
        cont_max: 0,
        choose: 22,
        save: 2,
        load: 2,
        reset: 1,
        flows: 3,
        choose_path: 0,
        set_var: 7,
        eval: 0,
        observe: 16,
        binds: 0,
        raw_choose: false,
        eval_knots: false,
        max_ops: 30,
    };
    let n = env.cases(10000, 300000);
    let r = run_cases(
        env,
        1,
        n,
        || case_strategy(1500, 120),
        |gc: &GenCase, acc: &mut Acc| {
            let Some(b) = build_or_discard(&gc.prog, &prof, acc) else {
                return Ok(());
            };
            // observers first so that most of the history is observed
            let mut ops = vec![];
            for (i, g) in b.meta.globals.iter().enumerate() {
                if gc.hist.get(i).map(|v| v % 4 != 0).unwrap_or(true) {
                    ops.push(HostOp::Observe { obs: i % N_OBSERVERS, var: g.clone() });
                }
                if gc.hist.get(i + 8).map(|v| v % 3 == 0).unwrap_or(false) {
                    ops.push(HostOp::Observe { obs: (i + 1) % N_OBSERVERS, var: g.clone() });
                }
            }
            // some continues are done in slices of a few interpreter steps
            for (k, op) in decode_history(&gc.hist, &b.meta, &hp).into_iter().enumerate() {
                let v = gc.hist.get(20 + k).copied().unwrap_or(0);
                if op == HostOp::Continue && v % 3 == 0 {
                    ops.push(HostOp::Slice(1 + (v as u32 / 3) % 9));
                } else {
                    ops.push(op);
                }
            }
            let cfg = HostCfg {
                handler: true,
                allow_fallbacks: true,
                ..HostCfg::default()
            };
            let refused = gc.hist.get(1).map(|v| v & 1 == 1).unwrap_or(false);
            let case = json!({"source": b.src, "cfg": cfg_to_json(&cfg), "ops": ops_to_json(&ops), "refused_calls": refused});
            acc.sample(|| case.clone());
            exec(&case, acc)
        },
    );
    rep.absorb(r);
    let _ = tail(0, 0);
    finish(env, rep)
}
