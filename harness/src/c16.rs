//! C16 — evaluating an Ink function from the host does not disturb the story.
use crate::common::*;
use crate::engine::*;
use crate::lockstep::*;
use crate::pgen::{Profile, Tape};
use crate::rt::*;
use serde_json::{Value as J, json};

const RULE: &str = "generated programs whose functions are pure (assign no global, contain no sequences, RANDOM or \
read counts; value-returning, text-printing, multi-line, nested calls) under a generated history (continues \
line by line, choices, flow switches, saves/loads), with evaluate_function injected at generated boundaries \
(mid-paragraph, at choice points, at the end, in named flows), each injection done twice; arguments are ints, and \
for the idiom functions written for any type also bools, floats, strings and values read back from a global (lists). Oracles: \
(1) the polled view (pending text, tags, choices, globals, visit counts outside functions) is identical \
immediately before and after the call; (2) the second call returns the same value and text as the first; \
(3) the whole history with injections yields the same transcript, notifications, external calls and final \
view as the history without them; (4) unknown/empty names are refused without change (shared with C09). \
Non-trivial = an injection at a point with pending output text, or >= 1 pending choice, or call-stack depth \
> 1 / several flows; distinct = hash(program, history, position). Second leg (reference model): programs of C01's domain are played in lockstep by the story and by the \
reference interpreter of C01 (harness/src/refint.rs); at every stop functions that are pure by inspection of the AST \
(no assignment to a global or through a reference, no sequence, no call of an impure function) are evaluated on both \
sides with generated integer arguments: the returned value (typed) and the printed text must equal the \
reference's, and later turns must still agree.";

fn profile() -> Profile {
    Profile {
        pure_functions: true,
        idioms: true,
        lists: false,
        random: false,
        shuffles: false,
        externals: true,
        ..Profile::default()
    }
}

fn filter_view(v: &View, funcs: &[String]) -> View {
    let mut v = v.without_diagnostics();
    v.visits.retain(|k, _| {
        !funcs
            .iter()
            .any(|f| k == f || k.starts_with(&format!("{f}.")))
    });
    v
}

pub fn exec(case: &J, acc: &mut Acc) -> Result<(), Fail> {
    inflight(case);
    let (json_text, meta) = case_story(case)?;
    let cfg = cfg_from_json(&case["cfg"]);
    let ops = ops_from_json(&case["ops"]);
    let funcs: Vec<String> = case["functions"]
        .as_array()
        .map(|a| a.iter().filter_map(|x| x.as_str().map(|s| s.to_string())).collect())
        .unwrap_or_default();
    let injections: Vec<(usize, HostOp)> = case["inject"]
        .as_array()
        .map(|a| {
            a.iter()
                .filter_map(|x| Some((x["at"].as_u64()? as usize, HostOp::from_json(&x["call"])?)))
                .collect()
        })
        .unwrap_or_default();
    acc.eval();
    let reference = match run_marked(&json_text, &meta, &cfg, &ops, false) {
        Err(p) => return Err(panic_fail(&p, "history without evaluations", case)),
        Ok(Err(_)) => {
            acc.discard("story_new_failed");
            return Ok(());
        }
        Ok(Ok(m)) => m,
    };
    if reference.fuel_out {
        acc.discard("fuel");
        return Ok(());
    }
    let r = guard(|| {
        let mut h = Host::new(&json_text, meta.clone(), &cfg).map_err(|e| e.to_string())?;
        // (position, first result, second result, view diff, nontrivial facts)
        let mut report: Vec<(usize, String, String, Option<String>, bool)> = vec![];
        let mut kept: Vec<Obs> = vec![];
        let mut refused_calls = 0u64;
        for (i, op) in ops.iter().enumerate().chain(std::iter::once((ops.len(), &HostOp::Save))) {
            for (at, call) in &injections {
                if *at != i {
                    continue;
                }
                let before = filter_view(&h.view(), &funcs);
                let facts = h.story.save_state().ok().map(|s| save_facts(&s));
                let nt = before.text.as_deref().map(|t| !t.is_empty()).unwrap_or(false)
                    || !before.choices.is_empty()
                    || facts
                        .map(|f| f.max_callstack_depth > 1 || f.flows > 1 || f.max_threads > 1)
                        .unwrap_or(false);
                kept.append(&mut h.trace);
                h.apply(call);
                let first = show_trace(&h.trace).join(" ; ");
                h.trace.clear();
                h.apply(call);
                let second = show_trace(&h.trace).join(" ; ");
                h.trace.clear();
                let after = filter_view(&h.view(), &funcs);
                let mut vdiff = before.diff(&after);
                // refused evaluations: unknown, empty and blank names, and an argument of a type
                // a host cannot pass (a divert target read back from a planted global), alone and
                // behind an acceptable argument. Each must return Err and change nothing: neither
                // what the host sees nor the save.
                if vdiff.is_none() {
                    let save_before = h.canonical_save();
                    let dt = h.story.get_variable("zz_dt").filter(|v| matches!(v, bladeink::value_type::ValueType::DivertTarget(_)));
                    let fname = funcs.first().cloned().unwrap_or_default();
                    let mut attempts: Vec<(String, Option<Vec<bladeink::value_type::ValueType>>)> = vec![
                        ("zz_no_such_function".into(), None),
                        (String::new(), None),
                        ("  ".into(), None),
                    ];
                    if let (Some(dt), false) = (dt, fname.is_empty()) {
                        attempts.push((fname.clone(), Some(vec![dt.clone()])));
                        attempts.push((fname.clone(), Some(vec![bladeink::value_type::ValueType::Int(7), dt])));
                    }
                    for (name, args) in attempts {
                        let mut out = String::new();
                        let r = h.story.evaluate_function(&name, args.as_ref(), &mut out);
                        h.trace.clear();
                        h.log.borrow_mut().clear();
                        refused_calls += 1;
                        if r.is_ok() {
                            vdiff = Some(format!("evaluate_function({name:?}, {} argument(s), the last of a refused type or the name unknown) was accepted", args.as_ref().map(|a| a.len()).unwrap_or(0)));
                            break;
                        }
                        let after = filter_view(&h.view(), &funcs);
                        if let Some(d) = before.diff(&after) {
                            vdiff = Some(format!("the refused call evaluate_function({name:?}, {} argument(s)) changed the view: {d}", args.as_ref().map(|a| a.len()).unwrap_or(0)));
                            break;
                        }
                        let save_after = h.canonical_save();
                        if let (Ok(a), Ok(b)) = (&save_before, &save_after) {
                            if a != b {
                                vdiff = Some(format!("the refused call evaluate_function({name:?}, {} argument(s)) changed the save: {}", args.as_ref().map(|a| a.len()).unwrap_or(0), crate::c02::json_diff(a, b)));
                                break;
                            }
                        }
                    }
                }
                report.push((i, first, second, vdiff, nt));
            }
            if i < ops.len() {
                h.apply(op);
            }
        }
        kept.append(&mut h.trace);
        Ok::<_, String>((report, kept, h.view(), h.fuel_exhausted(), refused_calls))
    });
    let (report, trace, view, fuel, refused_calls) = match r {
        Err(p) => return Err(panic_fail(&p, "history with evaluate_function injected", case)),
        Ok(Err(_)) => return Ok(()),
        Ok(Ok(x)) => x,
    };
    if fuel {
        acc.discard("fuel");
        return Ok(());
    }
    acc.classn("refused_evaluations", refused_calls);
    for (at, first, second, vdiff, nt) in &report {
        if *nt {
            acc.nontrivial(fnv(&format!("{}{}{at}", json_text, ops_to_json(&ops))));
            acc.class("injection:nontrivial_point");
        } else {
            acc.class("injection:plain_point");
        }
        if first.starts_with("ERR") {
            acc.class("injection:refused");
        } else {
            acc.class("injection:evaluated");
        }
        if let Some(d) = vdiff {
            return Err(Fail::violation(
                "eval-disturbs-view",
                format!("evaluate_function at position {at} changed what the host sees: {d} (call result: {first})"),
                case.clone(),
            ));
        }
        // ext calls made by the function are logged with line counters; compare results only
        let strip = |s: &str| -> String {
            s.split(" ; ").filter(|p| !p.starts_with("EXT ")).collect::<Vec<_>>().join(" ; ")
        };
        if strip(first) != strip(second) {
            return Err(Fail::violation(
                "eval-not-repeatable",
                format!("evaluating the same pure function twice at position {at} gave different results: {first} / {second}"),
                case.clone(),
            ));
        }
    }
    // the function's own external calls happen only in the injected run: drop Ext records
    // made while evaluating (they are inside the stripped call traces already)
    if let Some((i, a, b)) = first_diff(&no_msgs(&reference.trace), &no_msgs(&trace)) {
        return Err(Fail::violation(
            "eval-disturbs-later-play",
            format!("history with evaluate_function calls diverges from the same history without them at observation {i}: without {a} / with {b}"),
            case.clone(),
        ));
    }
    if let Some(d) = filter_view(&reference.final_view, &funcs).diff(&filter_view(&view, &funcs)) {
        return Err(Fail::violation(
            "eval-disturbs-later-play",
            format!("final view differs: {d}"),
            case.clone(),
        ));
    }
    Ok(())
}

pub fn run(env: &Env) -> i32 {
    let mut rep = Report::new("exploration", RULE);
    rep.assumptions = vec![
        "purity is by construction of the generator (functions assign no global, no sequences/RANDOM/read counts inside)".into(),
        "visit counts of the evaluated function and of functions it calls are excluded from the comparison, as the property allows".into(),
        "leg 1 checks the value/text a function returns for repeatability; leg 2 checks it against the reference interpreter (trailing blanks of the printed text are not compared; nothing is evaluated behind an error)".into(),
    ];
    if let Some(p) = &env.replay {
        return match load_replay_case(p) {
            Ok((_, case)) => {
                let mut acc = Acc::default();
                if let Err(f) = exec(&case, &mut acc) {
                    rep.fails.push(f);
                }
                rep.acc.merge(acc);
                finish(env, rep)
            }
            Err(e) => {
                println!("cannot load replay: {e}");
                2
            }
        };
    }
    replay_saved(env, &mut rep, &exec);
    let prof = profile();
    let hp = HistProfile {
        cont: 40,
        cont_max: 5,
        choose: 30,
        save: 2,
        load: 2,
        flows: 8,
        ..HistProfile::default()
    };
    let n = env.cases(8000, 200000);
    let r = run_cases(
        env,
        1,
        n,
        || case_strategy(1500, 80),
        |gc: &GenCase, acc: &mut Acc| {
            let Some(b) = build_or_discard(&gc.prog, &prof, acc) else {
                return Ok(());
            };
            // (name, number of parameters); idiom programs have no AST: their pure functions
            // are the ones named pure_*, each with one parameter
            let fns: Vec<(String, usize)> = if !b.prog.functions.is_empty() {
                b.prog.functions.iter().map(|f| (f.name.clone(), f.params.len())).collect()
            } else {
                b.meta.knots.iter().filter(|k| k.starts_with("pure_")).map(|k| (k.clone(), 1)).collect()
            };
            if fns.is_empty() {
                acc.discard("no_functions");
                return Ok(());
            }
            let split = gc.hist.len().min(50);
            let ops = decode_history(&gc.hist[..split], &b.meta, &hp);
            let mut t = Tape::new(&gc.hist[split..]);
            let ninj = 1 + t.pick(4);
            let mut inject = vec![];
            for _ in 0..ninj {
                let at = t.pick(ops.len() + 1);
                let f = &fns[t.pick(fns.len())];
                // functions written for any type get any type a host can pass: int, bool, float,
                // string, and a value read back from a global (list values come that way)
                let args: Vec<Arg> = (0..f.1)
                    .map(|_| {
                        if f.0.starts_with("pure_any") {
                            match t.pick(6) {
                                0 => Arg::I(t.range(-3, 9)),
                                1 => Arg::B(t.chance(1, 2)),
                                2 => Arg::F([0.5, -1.25, 2.0][t.pick(3)]),
                                3 => Arg::S(["x", "", "two words", "3"][t.pick(4)].to_string()),
                                _ => {
                                    if b.meta.globals.is_empty() {
                                        Arg::I(0)
                                    } else {
                                        Arg::G(b.meta.globals[t.pick(b.meta.globals.len())].clone())
                                    }
                                }
                            }
                        } else {
                            Arg::I(t.range(0, 9))
                        }
                    })
                    .collect();
                let call = HostOp::Eval { func: f.0.clone(), args };
                inject.push(json!({"at": at, "call": call.to_json()}));
            }
            let funcs: Vec<String> = fns.iter().map(|f| f.0.clone()).collect();
            let cfg = HostCfg {
                handler: gc.hist.first().map(|v| v & 1 == 1).unwrap_or(false),
                allow_fallbacks: true,
                ..HostCfg::default()
            };
            // a global holding a divert target: the value of a type evaluate_function refuses
            let src = if b.src.contains("=== k0") { format!("VAR zz_dt = -> k0\n{}", b.src) } else { b.src.clone() };
            let case = json!({"source": src, "cfg": cfg_to_json(&cfg), "ops": ops_to_json(&ops), "inject": inject, "functions": funcs});
            acc.sample(|| case.clone());
            exec(&case, acc)
        },
    );
    rep.absorb(r);
    // leg 2: the value and the text an evaluation returns, against the reference interpreter
    let n2 = env.cases(3000, 60000);
    let r = run_cases(
        env,
        2,
        n2,
        || case_strategy(1500, 40),
        |gc: &GenCase, acc: &mut Acc| model_leg(gc, acc),
    );
    rep.absorb(r);
    finish(env, rep)
}

/// a function whose evaluation changes nothing the story can see later: no assignment to a
/// global or through a reference, no sequence (its position is state), no call of a function
/// that is not pure itself
fn pure_functions(p: &crate::ast::Program) -> Vec<String> {
    use crate::ast::*;
    fn inl_pure(v: &[Inline], pure: &[String]) -> bool {
        v.iter().all(|i| match i {
            Inline::Text(_) | Inline::Glue => true,
            Inline::Expr(e) => expr_pure(e, pure),
            Inline::Cond(c, a, b) => expr_pure(c, pure) && inl_pure(a, pure) && inl_pure(b, pure),
            Inline::Seq(..) => false,
        })
    }
    fn expr_pure(e: &Expr, pure: &[String]) -> bool {
        let mut ok = true;
        e.walk(&mut |x| match x {
            Expr::Call(f, _) if f != "MIN" && f != "MAX" && !pure.contains(f) => ok = false,
            Expr::Random(..) => ok = false,
            _ => {}
        });
        ok
    }
    fn stmts_pure(v: &[Stmt], f: &Function, pure: &[String], globals: &[String]) -> bool {
        v.iter().all(|s| match s {
            Stmt::Line(l) => l.divert.is_none() && inl_pure(&l.parts, pure),
            Stmt::TempDecl(_, e) => expr_pure(e, pure),
            Stmt::Assign(n, e) | Stmt::AssignOp(n, _, e) => !globals.contains(n) && !f.params.iter().any(|p| p == &format!("ref {n}")) && expr_pure(e, pure),
            Stmt::Call(g, args) => pure.contains(g) && args.iter().all(|a| expr_pure(a, pure)),
            Stmt::Return(e) => e.as_ref().map(|e| expr_pure(e, pure)).unwrap_or(true),
            Stmt::If(br, els) => br.iter().all(|(c, b)| expr_pure(c, pure) && stmts_pure(b, f, pure, globals)) && els.as_ref().map(|b| stmts_pure(b, f, pure, globals)).unwrap_or(true),
            Stmt::Switch(_, cases, els) => cases.iter().all(|(_, b)| stmts_pure(b, f, pure, globals)) && els.as_ref().map(|b| stmts_pure(b, f, pure, globals)).unwrap_or(true),
            _ => false,
        })
    }
    let globals: Vec<String> = p.globals.iter().map(|g| g.name.clone()).collect();
    let mut pure: Vec<String> = vec![];
    // functions only call functions of higher index: decide from the last one backwards
    for f in p.functions.iter().rev() {
        if !f.params.iter().any(|p| p.starts_with("ref ")) && stmts_pure(&f.body, f, &pure, &globals) {
            pure.push(f.name.clone());
        }
    }
    pure
}

fn model_leg(gc: &GenCase, acc: &mut Acc) -> Result<(), Fail> {
    use crate::c01::{TStop, model_turn, real_turn, show_turn, turns_agree};
    use crate::refint::{self, Machine, Val};
    let prof = crate::c01::profile();
    let prog = crate::pgen::gen_program(&gc.prog, &prof);
    let pure = pure_functions(&prog);
    if pure.is_empty() {
        acc.discard("no_pure_function");
        return Ok(());
    }
    let src = prog.to_ink();
    let Ok((json_text, meta)) = compile_src(&src) else {
        acc.discard("compile_error");
        return Ok(());
    };
    let case = json!({"kind": "model", "prog_tape": gc.prog, "hist_tape": gc.hist, "source": src});
    let lw = refint::lower(&prog);
    let mut t = Tape::new(&gc.hist);
    let cfg = HostCfg { bind_externals: None, ..HostCfg::default() };
    let r = guard(|| -> Result<Option<(String, String)>, String> {
        let mut h = Host::new(&json_text, meta.clone(), &cfg).map_err(|e| e.to_string())?;
        let mut m = Machine::new(&lw).map_err(|e| format!("model: {e}"))?;
        let mut evaluated = 0;
        for _turn in 0..6 {
            let a = real_turn(&mut h);
            let Some(b) = model_turn(&mut m) else { return Ok(None) };
            if h.fuel_exhausted() {
                return Ok(None);
            }
            if !turns_agree(&a, &b) {
                if evaluated == 0 {
                    // not this property's subject (C01 decides plain play)
                    return Ok(None);
                }
                return Ok(Some(("eval-disturbs-later-play".into(), format!("after {evaluated} evaluations the story and the reference part ways: story {} | reference {}", show_turn(&a), show_turn(&b)))));
            }
            // (an error stops the story until it is reset: nothing is evaluated behind one)
            if a.stop == TStop::Error {
                break;
            }
            // evaluate one or two pure functions at this boundary, on both sides
            for _ in 0..1 + t.pick(2) {
                let fname = &pure[t.pick(pure.len())];
                let f = prog.functions.iter().find(|f| &f.name == fname).unwrap();
                let ints: Vec<i32> = f.params.iter().map(|_| t.range(0, 9)).collect();
                let args: Vec<bladeink::value_type::ValueType> = ints.iter().map(|i| bladeink::value_type::ValueType::Int(*i)).collect();
                let mut text = String::new();
                let rv = h.story.evaluate_function(fname, if args.is_empty() { None } else { Some(&args) }, &mut text);
                let mv = m.eval_function(fname, &ints.iter().map(|i| Val::I(*i)).collect::<Vec<_>>());
                evaluated += 1;
                match (rv, mv) {
                    (Ok(v), Ok((mval, mtext))) => {
                        let got = render_opt_value(&v);
                        let want = mval.render();
                        if got != want {
                            return Ok(Some(("eval-value-differs".into(), format!("evaluate_function({fname}, {ints:?}) returned {got}, the reference says {want}"))));
                        }
                        if text.trim_end() != mtext.trim_end() {
                            return Ok(Some(("eval-text-differs".into(), format!("evaluate_function({fname}, {ints:?}) printed {text:?}, the reference says {mtext:?}"))));
                        }
                    }
                    (Err(e), Ok(_)) => {
                        return Ok(Some(("eval-refused".into(), format!("evaluate_function({fname}, {ints:?}) failed: {e}"))));
                    }
                    (_, Err(_)) => return Ok(None),
                }
            }
            match &a.stop {
                TStop::Choices(c) => {
                    let k = t.pick(c.len());
                    h.apply(&HostOp::Choose(k));
                    if m.choose(k).is_err() {
                        return Ok(None);
                    }
                }
                _ => break,
            }
        }
        acc_note(evaluated);
        Ok(None)
    });
    acc.eval();
    match r {
        Err(p) => Err(panic_fail(&p, "evaluate_function against the reference", &case)),
        Ok(Err(_)) => Ok(()),
        Ok(Ok(None)) => {
            acc.class("model_leg_case");
            acc.nontrivial(fnv(&format!("{}{:?}", src, gc.hist)));
            Ok(())
        }
        Ok(Ok(Some((key, msg)))) => Err(Fail::violation(key, msg, case)),
    }
}

fn acc_note(_n: usize) {}
