//! C16 — evaluating an Ink function from the host does not disturb the story.
use crate::common::*;
use crate::engine::*;
use crate::lockstep::*;
use crate::pgen::{Profile, Tape};
use crate::rt::*;
use serde_json::{Value as J, json};

const RULE: &str = "generated programs whose functions are pure (assign no global, contain no sequences, RANDOM or \
read counts; value-returning, text-printing, multi-line, nested calls) under a generated history (continues \
line by line, choices, flow switches, saves/loads), with evaluate_function injected at generated boundaries \
(mid-paragraph, at choice points, at the end, in named flows), each injection done twice. Oracles: \
(1) the polled view (pending text, tags, choices, globals, visit counts outside functions) is identical \
immediately before and after the call; (2) the second call returns the same value and text as the first; \
(3) the whole history with injections yields the same transcript, notifications, external calls and final \
view as the history without them; (4) unknown/empty names are refused without change (shared with C09). \
Non-trivial = an injection at a point with pending output text, or >= 1 pending choice, or call-stack depth \
> 1 / several flows; distinct = hash(program, history, position).";

fn profile() -> Profile {
    Profile {
        pure_functions: true,
        idioms: false,
        lists: false,
        random: false,
        shuffles: false,
        externals: true,
        ..Profile::default()
    }
}

fn filter_view(v: &View, funcs: &[String]) -> View {
    let mut v = v.without_diagnostics();
    v.visits.retain(|k, _| {
        !funcs
            .iter()
            .any(|f| k == f || k.starts_with(&format!("{f}.")))
    });
    v
}

pub fn exec(case: &J, acc: &mut Acc) -> Result<(), Fail> {
    inflight(case);
    let (json_text, meta) = case_story(case)?;
    let cfg = cfg_from_json(&case["cfg"]);
    let ops = ops_from_json(&case["ops"]);
    let funcs: Vec<String> = case["functions"]
        .as_array()
        .map(|a| a.iter().filter_map(|x| x.as_str().map(|s| s.to_string())).collect())
        .unwrap_or_default();
    let injections: Vec<(usize, HostOp)> = case["inject"]
        .as_array()
        .map(|a| {
            a.iter()
                .filter_map(|x| Some((x["at"].as_u64()? as usize, HostOp::from_json(&x["call"])?)))
                .collect()
        })
        .unwrap_or_default();
    acc.eval();
    let reference = match run_marked(&json_text, &meta, &cfg, &ops, false) {
        Err(p) => return Err(panic_fail(&p, "history without evaluations", case)),
        Ok(Err(_)) => {
            acc.discard("story_new_failed");
            return Ok(());
        }
        Ok(Ok(m)) => m,
    };
    if reference.fuel_out {
        acc.discard("fuel");
        return Ok(());
    }
    let r = guard(|| {
        let mut h = Host::new(&json_text, meta.clone(), &cfg).map_err(|e| e.to_string())?;
        // (position, first result, second result, view diff, nontrivial facts)
        let mut report: Vec<(usize, String, String, Option<String>, bool)> = vec![];
        let mut kept: Vec<Obs> = vec![];
        for (i, op) in ops.iter().enumerate().chain(std::iter::once((ops.len(), &HostOp::Save))) {
            for (at, call) in &injections {
                if *at != i {
                    continue;
                }
                let before = filter_view(&h.view(), &funcs);
                let facts = h.story.save_state().ok().map(|s| save_facts(&s));
                let nt = before.text.as_deref().map(|t| !t.is_empty()).unwrap_or(false)
                    || !before.choices.is_empty()
                    || facts
                        .map(|f| f.max_callstack_depth > 1 || f.flows > 1 || f.max_threads > 1)
                        .unwrap_or(false);
                kept.append(&mut h.trace);
                h.apply(call);
                let first = show_trace(&h.trace).join(" ; ");
                h.trace.clear();
                h.apply(call);
                let second = show_trace(&h.trace).join(" ; ");
                h.trace.clear();
                let after = filter_view(&h.view(), &funcs);
                report.push((i, first, second, before.diff(&after), nt));
            }
            if i < ops.len() {
                h.apply(op);
            }
        }
        kept.append(&mut h.trace);
        Ok::<_, String>((report, kept, h.view(), h.fuel_exhausted()))
    });
    let (report, trace, view, fuel) = match r {
        Err(p) => return Err(panic_fail(&p, "history with evaluate_function injected", case)),
        Ok(Err(_)) => return Ok(()),
        Ok(Ok(x)) => x,
    };
    if fuel {
        acc.discard("fuel");
        return Ok(());
    }
    for (at, first, second, vdiff, nt) in &report {
        if *nt {
            acc.nontrivial(fnv(&format!("{}{}{at}", json_text, ops_to_json(&ops))));
            acc.class("injection:nontrivial_point");
        } else {
            acc.class("injection:plain_point");
        }
        if first.starts_with("ERR") {
            acc.class("injection:refused");
        } else {
            acc.class("injection:evaluated");
        }
        if let Some(d) = vdiff {
            return Err(Fail::violation(
                "eval-disturbs-view",
                format!("evaluate_function at position {at} changed what the host sees: {d} (call result: {first})"),
                case.clone(),
            ));
        }
        // ext calls made by the function are logged with line counters; compare results only
        let strip = |s: &str| -> String {
            s.split(" ; ").filter(|p| !p.starts_with("EXT ")).collect::<Vec<_>>().join(" ; ")
        };
        if strip(first) != strip(second) {
            return Err(Fail::violation(
                "eval-not-repeatable",
                format!("evaluating the same pure function twice at position {at} gave different results: {first} / {second}"),
                case.clone(),
            ));
        }
    }
    // the function's own external calls happen only in the injected run: drop Ext records
    // made while evaluating (they are inside the stripped call traces already)
    if let Some((i, a, b)) = first_diff(&no_msgs(&reference.trace), &no_msgs(&trace)) {
        return Err(Fail::violation(
            "eval-disturbs-later-play",
            format!("history with evaluate_function calls diverges from the same history without them at observation {i}: without {a} / with {b}"),
            case.clone(),
        ));
    }
    if let Some(d) = filter_view(&reference.final_view, &funcs).diff(&filter_view(&view, &funcs)) {
        return Err(Fail::violation(
            "eval-disturbs-later-play",
            format!("final view differs: {d}"),
            case.clone(),
        ));
    }
    Ok(())
}

pub fn run(env: &Env) -> i32 {
    let mut rep = Report::new("exploration", RULE);
    rep.assumptions = vec![
        "purity is by construction of the generator (functions assign no global, no sequences/RANDOM/read counts inside)".into(),
        "visit counts of the evaluated function and of functions it calls are excluded from the comparison, as the property allows".into(),
        "the value/text a function returns is checked for repeatability here; its correctness against the language rules is C01's subject".into(),
    ];
    if let Some(p) = &env.replay {
        return match load_replay_case(p) {
            Ok((_, case)) => {
                let mut acc = Acc::default();
                if let Err(f) = exec(&case, &mut acc) {
                    rep.fails.push(f);
                }
                rep.acc.merge(acc);
                finish(env, rep)
            }
            Err(e) => {
                println!("cannot load replay: {e}");
                2
            }
        };
    }
    replay_saved(env, &mut rep, &exec);
    let prof = profile();
    let hp = HistProfile {
        cont: 40,
        cont_max: 5,
        choose: 30,
        save: 2,
        load: 2,
        flows: 8,
        ..HistProfile::default()
    };
    let n = env.cases(8000, 200000);
    let r = run_cases(
        env,
        1,
        n,
        || case_strategy(1500, 80),
        |gc: &GenCase, acc: &mut Acc| {
            let Some(b) = build_or_discard(&gc.prog, &prof, acc) else {
                return Ok(());
            };
            if b.prog.functions.is_empty() {
                acc.discard("no_functions");
                return Ok(());
            }
            let split = gc.hist.len().min(50);
            let ops = decode_history(&gc.hist[..split], &b.meta, &hp);
            let mut t = Tape::new(&gc.hist[split..]);
            let ninj = 1 + t.pick(4);
            let mut inject = vec![];
            for _ in 0..ninj {
                let at = t.pick(ops.len() + 1);
                let f = &b.prog.functions[t.pick(b.prog.functions.len())];
                let args: Vec<Arg> = f.params.iter().map(|_| Arg::I(t.range(0, 9))).collect();
                let call = HostOp::Eval { func: f.name.clone(), args };
                inject.push(json!({"at": at, "call": call.to_json()}));
            }
            let funcs: Vec<String> = b.prog.functions.iter().map(|f| f.name.clone()).collect();
            let cfg = HostCfg {
                handler: gc.hist.first().map(|v| v & 1 == 1).unwrap_or(false),
                allow_fallbacks: true,
                ..HostCfg::default()
            };
            let case = json!({"source": b.src, "cfg": cfg_to_json(&cfg), "ops": ops_to_json(&ops), "inject": inject, "functions": funcs});
            acc.sample(|| case.clone());
            exec(&case, acc)
        },
    );
    rep.absorb(r);
    finish(env, rep)
}
