//! C04 — story faults are reported as errors; the runtime never panics.
use crate::common::*;
use crate::engine::*;
use crate::pgen::{Profile, Tape};
use crate::rt::*;
use proptest::strategy::Strategy;
use serde_json::{Value as J, json};

const RULE: &str = "generated fault-prone core-Ink programs (division/modulo by possibly-zero operands, \
operands near i32 limits, RANDOM with extreme/inverted bounds, mixed-type operands, value-less function \
results, missing END, path jumps into functions/parameterised knots) and compiling source mutants of the \
corpus, each played under a random host-call history (continue, choose, save/load, reset, flow switches, \
choose_path_string with/without reset and arguments, evaluate_function, set_variable), with and without an \
error handler; plus int-only `+ - * neg` chains checked against a wrapping 32-bit model. Non-trivial = the \
history produced at least one Err result or error-handler callback (a fault site really executed), or a \
wrap-model expression whose exact value leaves the i32 range; distinct = hash of (source, history, handler).";

fn profile() -> Profile {
    Profile {
        faults: true,
        random: true,
        shuffles: true,
        lists: true,
        externals: true,
        ..Profile::default()
    }
}

fn play_case_json(src: &str, cfg: &HostCfg, ops: &[HostOp]) -> J {
    json!({"kind": "play", "source": src, "cfg": cfg_to_json(cfg), "ops": ops_to_json(ops)})
}

/// Continuation used by the reset-equivalence leg.
fn tail_ops() -> Vec<HostOp> {
    let mut v = vec![];
    for k in 0..4 {
        v.push(HostOp::ContinueMax);
        v.push(HostOp::ChooseMod(k));
    }
    v
}

/// Play `ops`; no panic allowed. If an error was reported, reset and compare with a fresh story.
pub fn exec_play(case: &J, acc: &mut Acc) -> Result<(), Fail> {
    inflight(case);
    let (json_text, meta) = case_story(case)?;
    let cfg = cfg_from_json(&case["cfg"]);
    let ops = ops_from_json(&case["ops"]);
    acc.eval();
    let r = guard(|| {
        let mut h = match Host::new(&json_text, meta.clone(), &cfg) {
            Ok(h) => h,
            Err(e) => return Err(format!("Story::new failed on compiler output: {e}")),
        };
        h.run(&ops);
        let saw_error = h
            .trace
            .iter()
            .any(|o| matches!(o, Obs::Err { .. } | Obs::Handler { warning: false, .. }));
        let fuel_out = h.fuel_exhausted();
        let mut after_reset = None;
        if saw_error && !fuel_out {
            // (d) after any reported error, resetting makes the story play like a fresh one
            let mark = h.trace.len();
            h.apply(&HostOp::Reset);
            if matches!(h.trace.last(), Some(Obs::Ret(_))) {
                h.story.verif_set_fuel(Some(cfg.fuel));
                let mark2 = h.trace.len();
                h.run(&tail_ops());
                let _ = mark;
                after_reset = Some((h.trace[mark2..].to_vec(), h.view(), h.fuel_exhausted()));
            } else {
                after_reset = Some((h.trace[mark..].to_vec(), h.view(), true));
            }
        }
        Ok((h.trace.clone(), saw_error, fuel_out, after_reset))
    });
    let (trace, saw_error, fuel_out, after_reset) = match r {
        Err(p) => {
            return Err(Fail::violation(
                format!("panic@{}", p.site()),
                format!("runtime panicked: {} ({})", p.msg, p.site()),
                case.clone(),
            ));
        }
        Ok(Err(e)) => {
            acc.discard("story_new_failed");
            let _ = e;
            return Ok(());
        }
        Ok(Ok(x)) => x,
    };
    if fuel_out {
        acc.discard("fuel");
        return Ok(());
    }
    if saw_error {
        acc.nontrivial(fnv(&case.to_string()));
        acc.class("history_with_error");
    }
    for o in &trace {
        if let Obs::Err { msg, .. } | Obs::Handler { msg, .. } = o {
            let m = msg.split("The first issue was:").last().unwrap_or(msg);
            let cls: String = m
                .split("): ")
                .last()
                .unwrap_or(m)
                .chars()
                .filter(|c| !c.is_ascii_digit())
                .take(48)
                .collect();
            acc.class(&format!("err:{}", cls.trim()));
        }
    }
    if let Some((reset_trace, reset_view, reset_fuel)) = after_reset {
        if reset_fuel {
            return Ok(());
        }
        if !matches!(reset_trace.first(), Some(Obs::Line { .. } | Obs::Choices(_) | Obs::End | Obs::Err { .. } | Obs::Handler { .. } | Obs::Ext { .. } | Obs::Notify { .. } | Obs::Skip(_)))
            && !reset_trace.is_empty()
        {
            // first element is the Ret("reset") of a successful reset only when reset failed path
        }
        let fresh = guard(|| {
            let mut f = Host::new(&json_text, meta.clone(), &cfg).map_err(|e| e.to_string())?;
            f.run(&tail_ops());
            Ok::<_, String>((f.trace.clone(), f.view(), f.fuel_exhausted()))
        });
        match fresh {
            Err(p) => {
                return Err(Fail::violation(
                    format!("panic@{}", p.site()),
                    format!("runtime panicked on fresh replay: {}", p.msg),
                    case.clone(),
                ));
            }
            Ok(Err(_)) => return Ok(()),
            Ok(Ok((ft, fv, ff))) => {
                if ff {
                    return Ok(());
                }
                acc.class("reset_after_error_compared");
                // registrations survive a reset, so observer notifications of the reset story
                // are extra; compare story output only
                let strip = |t: &[Obs]| -> Vec<Obs> {
                    // message text is not part of the comparison (C04 speaks of playing like a
                    // fresh story; texts of diagnostics may list names in any order)
                    t.iter()
                        // warnings raised by the global declarations are delivered during
                        // construction-then-first-continue on a fresh story but during the
                        // reset_state call on a reset one: not a difference in play
                        .filter(|o| !matches!(o, Obs::Notify { .. } | Obs::Handler { warning: true, .. }))
                        .map(|o| o.without_msg())
                        .collect()
                };
                if let Some((i, a, b)) = first_diff(&strip(&reset_trace), &strip(&ft)) {
                    return Err(Fail::violation(
                        "reset-after-error-differs",
                        format!("after an error and reset_state the story does not play like a fresh one: at observation {i}: reset story {a} / fresh story {b}"),
                        case.clone(),
                    ));
                }
                if let Some(d) = reset_view.without_diagnostics().diff(&fv.without_diagnostics()) {
                    return Err(Fail::violation(
                        "reset-after-error-differs",
                        format!("after an error and reset_state the final view differs from a fresh story: {d}"),
                        case.clone(),
                    ));
                }
            }
        }
    }
    Ok(())
}

// ---------------------------------------------------------------------------- wrap model

#[derive(Debug, Clone)]
enum W {
    Lit(i32),
    Neg(Box<W>),
    Bin(char, Box<W>, Box<W>),
}

fn gen_w(t: &mut Tape, depth: usize) -> W {
    let lits = [
        0,
        1,
        2,
        3,
        7,
        -1,
        -5,
        46341,
        65536,
        1 << 30,
        i32::MAX,
        i32::MAX - 1,
        i32::MIN + 1,
        1000000007,
        -2000000000,
    ];
    if depth == 0 || t.pick(4) == 0 {
        return W::Lit(lits[t.pick(lits.len())]);
    }
    match t.pick(5) {
        0 => W::Neg(Box::new(gen_w(t, depth - 1))),
        1 | 2 => W::Bin('+', Box::new(gen_w(t, depth - 1)), Box::new(gen_w(t, depth - 1))),
        3 => W::Bin('-', Box::new(gen_w(t, depth - 1)), Box::new(gen_w(t, depth - 1))),
        _ => W::Bin('*', Box::new(gen_w(t, depth - 1)), Box::new(gen_w(t, depth - 1))),
    }
}

fn print_w(w: &W) -> String {
    match w {
        W::Lit(i) => {
            if *i < 0 {
                format!("(0 - {})", (*i as i64).unsigned_abs())
            } else {
                format!("{i}")
            }
        }
        W::Neg(a) => format!("(-({}))", print_w(a)),
        W::Bin(op, a, b) => format!("({} {op} {})", print_w(a), print_w(b)),
    }
}

/// (wrapped i32 value, exact value left the i32 range somewhere)
fn eval_w(w: &W) -> (i32, bool) {
    match w {
        W::Lit(i) => (*i, false),
        W::Neg(a) => {
            let (v, o) = eval_w(a);
            (v.wrapping_neg(), o || v == i32::MIN)
        }
        W::Bin(op, a, b) => {
            let (x, o1) = eval_w(a);
            let (y, o2) = eval_w(b);
            let (v, o) = match op {
                '+' => (x.wrapping_add(y), x.checked_add(y).is_none()),
                '-' => (x.wrapping_sub(y), x.checked_sub(y).is_none()),
                _ => (x.wrapping_mul(y), x.checked_mul(y).is_none()),
            };
            (v, o || o1 || o2)
        }
    }
}

fn wrap_source(exprs: &[String]) -> String {
    let mut s = String::from("VAR r = 0\n");
    for e in exprs {
        s.push_str(&format!("~ r = {e}\n{{r}}\n"));
    }
    s.push_str("-> END\n");
    s
}

pub fn exec_wrap(case: &J, acc: &mut Acc) -> Result<(), Fail> {
    let exprs: Vec<String> = case["exprs"]
        .as_array()
        .map(|a| a.iter().filter_map(|x| x.as_str().map(|s| s.to_string())).collect())
        .unwrap_or_default();
    let expected: Vec<i64> = case["expected"]
        .as_array()
        .map(|a| a.iter().filter_map(|x| x.as_i64()).collect())
        .unwrap_or_default();
    let src = wrap_source(&exprs);
    let (json_text, meta) = match compile_src(&src) {
        Ok(x) => x,
        Err(_) => {
            acc.discard("wrap_compile_error");
            return Ok(());
        }
    };
    acc.evals(exprs.len() as u64);
    let r = guard(|| {
        let mut h = Host::new(&json_text, meta.clone(), &HostCfg::default()).map_err(|e| e.to_string())?;
        h.apply(&HostOp::ContinueMax);
        Ok::<_, String>(h.trace.clone())
    });
    let trace = match r {
        Err(p) => {
            return Err(Fail::violation(
                format!("panic@{}", p.site()),
                format!("integer arithmetic panicked instead of wrapping: {} ({})", p.msg, p.site()),
                case.clone(),
            ));
        }
        Ok(Err(_)) => return Ok(()),
        Ok(Ok(t)) => t,
    };
    let lines: Vec<String> = trace
        .iter()
        .filter_map(|o| match o {
            Obs::Line { text, .. } => Some(text.trim().to_string()),
            _ => None,
        })
        .collect();
    for (i, e) in expected.iter().enumerate() {
        match lines.get(i) {
            Some(l) if *l == e.to_string() => {}
            other => {
                return Err(Fail::violation(
                    "wrap-model-mismatch",
                    format!(
                        "expression {} should evaluate to {} (32-bit wrap-around) but the story printed {:?}; trace {:?}",
                        exprs[i], e, other, show_trace(&trace)
                    ),
                    case.clone(),
                ));
            }
        }
    }
    Ok(())
}

// ---------------------------------------------------------------------------- corpus mutants

fn mutate_source(src: &str, t: &mut Tape) -> String {
    let mut lines: Vec<String> = src.lines().map(|l| l.to_string()).collect();
    if lines.is_empty() {
        return src.to_string();
    }
    let n = 1 + t.pick(3);
    for _ in 0..n {
        let i = t.pick(lines.len());
        match t.pick(7) {
            0 => {
                lines.remove(i);
                if lines.is_empty() {
                    lines.push(String::new());
                }
            }
            1 => {
                let l = lines[i].clone();
                lines.insert(i, l);
            }
            2 => {
                let j = t.pick(lines.len());
                lines.swap(i, j);
            }
            3 => {
                // replace an integer literal by a boundary value
                let b = ["0", "2147483647", "-2147483647", "1", "-1", "65536"][t.pick(6)];
                let l = &lines[i];
                if let Some(pos) = l.find(|c: char| c.is_ascii_digit()) {
                    let end = l[pos..]
                        .find(|c: char| !c.is_ascii_digit())
                        .map(|e| pos + e)
                        .unwrap_or(l.len());
                    lines[i] = format!("{}{}{}", &l[..pos], b, &l[end..]);
                }
            }
            4 => {
                // swap two whitespace-separated tokens
                let toks: Vec<&str> = lines[i].split(' ').collect();
                if toks.len() >= 2 {
                    let a = t.pick(toks.len());
                    let b = t.pick(toks.len());
                    let mut tk: Vec<String> = toks.iter().map(|s| s.to_string()).collect();
                    tk.swap(a, b);
                    lines[i] = tk.join(" ");
                }
            }
            5 => {
                // replace an operator
                let ops = [(" + ", " / "), (" - ", " % "), (" * ", " / "), (" / ", " * "), ("==", "!="), (" > ", " < ")];
                let (a, b) = ops[t.pick(ops.len())];
                lines[i] = lines[i].replacen(a, b, 1);
            }
            _ => {
                // retarget a divert to another line's target
                let targets: Vec<String> = lines
                    .iter()
                    .filter_map(|l| l.split("-> ").nth(1).map(|s| s.split_whitespace().next().unwrap_or("").to_string()))
                    .filter(|s| !s.is_empty())
                    .collect();
                if !targets.is_empty() {
                    if let Some(pos) = lines[i].find("-> ") {
                        let tgt = &targets[t.pick(targets.len())];
                        let rest = &lines[i][pos + 3..];
                        let end = rest.find(char::is_whitespace).unwrap_or(rest.len());
                        lines[i] = format!("{}-> {}{}", &lines[i][..pos], tgt, &rest[end..]);
                    }
                }
            }
        }
    }
    lines.join("\n") + "\n"
}

// ---------------------------------------------------------------------------- driver

pub fn exec(case: &J, acc: &mut Acc) -> Result<(), Fail> {
    inflight(case);
    match case["kind"].as_str() {
        Some("play") => exec_play(case, acc),
        Some("wrap") => exec_wrap(case, acc),
        Some("surface") => crate::c13::exec(&case["chain"], acc).map_err(|mut f| {
            f.case = case.clone();
            f
        }),
        _ => Err(Fail::harness("unknown C04 case kind")),
    }
}

pub fn run(env: &Env) -> i32 {
    let mut rep = Report::new("exploration", RULE);
    rep.assumptions = vec![
        "panics are detected in-process (catch_unwind + panic hook); an abort or stack overflow would kill the check process and is reported by ./check as exit 2 with the in-flight case unknown".into(),
        "interpreter steps per history bounded by fuel (20000); fuel stops are discarded, not judged".into(),
        "debug-profile semantics = overflow-checks + debug-assertions on (opt-level 1); the release leg is run by ./check with the release build".into(),
    ];
    if let Some(p) = &env.replay {
        return match load_replay_case(p) {
            Ok((_, case)) => {
                let mut acc = Acc::default();
                if let Err(f) = exec(&case, &mut acc) {
                    rep.fails.push(f);
                }
                rep.acc.merge(acc);
                finish(env, rep)
            }
            Err(e) => {
                println!("cannot load replay: {e}");
                2
            }
        };
    }
    if !env.child {
        replay_saved(env, &mut rep, &exec);
    }

    // leg 1: generated fault-prone programs x histories x {handler, no handler}
    let prof = profile();
    let hp = HistProfile { raw_choose: true, eval_knots: true, ..HistProfile::everything() };
    let n1 = env.cases(12000, 400000);
    let r = run_cases(
        env,
        1,
        n1,
        || case_strategy(1500, 60),
        |gc: &GenCase, acc: &mut Acc| {
            let Some(b) = build_or_discard(&gc.prog, &prof, acc) else {
                return Ok(());
            };
            let ops = decode_history(&gc.hist, &b.meta, &hp);
            for f in b.prog.features() {
                acc.class(&format!("prog:{f}"));
            }
            for handler in [false, true] {
                let cfg = HostCfg {
                    handler,
                    allow_fallbacks: gc.hist.first().map(|v| v & 1 == 1).unwrap_or(false),
                    bind_externals: if gc.hist.get(1).map(|v| v % 4 == 0).unwrap_or(false) {
                        None
                    } else {
                        Some(gc.hist.get(1).map(|v| v % 2 == 0).unwrap_or(true))
                    },
                    ..HostCfg::default()
                };
                let case = play_case_json(&b.src, &cfg, &ops);
                acc.sample(|| json!({"source": b.src, "ops": ops_to_json(&ops), "handler": handler}));
                exec_play(&case, acc)?;
            }
            Ok(())
        },
    );
    rep.absorb(r);

    // leg 2: wrap-around model for + - * neg
    let n2 = env.cases(3000, 100000);
    let r = run_cases(
        env,
        2,
        n2,
        || proptest::collection::vec(proptest::num::u16::ANY, 0..400),
        |tape: &Vec<u16>, acc: &mut Acc| {
            let mut t = Tape::new(tape);
            let n = 1 + t.pick(12);
            let mut exprs = vec![];
            let mut expected = vec![];
            for _ in 0..n {
                let w = gen_w(&mut t, 3);
                let (v, overflowed) = eval_w(&w);
                let s = print_w(&w);
                if overflowed {
                    acc.nontrivial(fnv(&s));
                    acc.class("wrap:overflowing_expression");
                } else {
                    acc.class("wrap:in_range_expression");
                }
                exprs.push(s);
                expected.push(v as i64);
            }
            let case = json!({"kind": "wrap", "exprs": exprs, "expected": expected});
            acc.sample(|| case.clone());
            exec_wrap(&case, acc)
        },
    );
    rep.absorb(r);

    // leg 3: compiling mutants of the corpus sources
    let sources: Vec<(String, String)> = corpus_sources()
        .iter()
        .filter_map(|p| {
            std::fs::read_to_string(p)
                .ok()
                .map(|s| (p.display().to_string(), strip_bom(&s).to_string()))
        })
        .filter(|(_, s)| !s.contains("INCLUDE"))
        .collect();
    if !sources.is_empty() {
        let n3 = env.cases(5000, 150000);
        let nsrc = sources.len();
        let r = run_cases(
            env,
            3,
            n3,
            || (0..nsrc, case_strategy(40, 60)),
            |(si, gc): &(usize, GenCase), acc: &mut Acc| {
                let mut t = Tape::new(&gc.prog);
                let src = mutate_source(&sources[*si].1, &mut t);
                let (json_text, meta) = match compile_src(&src) {
                    Ok(x) => x,
                    Err(_) => {
                        acc.discard("mutant_rejected_by_compiler");
                        return Ok(());
                    }
                };
                let _ = json_text;
                acc.class("mutant:compiles");
                let ops = decode_history(&gc.hist, &meta, &hp);
                for handler in [false, true] {
                    let cfg = HostCfg {
                        handler,
                        allow_fallbacks: true,
                        ..HostCfg::default()
                    };
                    let case = play_case_json(&src, &cfg, &ops);
                    exec_play(&case, acc)?;
                }
                Ok(())
            },
        );
        rep.absorb(r);
    }
    // leg 4: faults must SURFACE. Chain programs with planted faults (division by zero, bad divert
    // variable, ->-> / ~ return out of place, missing END) under a reactive host that also jumps
    // by path: every fault the story runs into must arrive as Err or handler callback (model
    // shared with C13).
    let n4 = env.cases(6000, 200000);
    let r = run_cases(
        env,
        4,
        n4,
        || proptest::collection::vec(proptest::num::u16::ANY, 0..200),
        |tape: &Vec<u16>, acc: &mut Acc| {
            for chain in crate::c13::cases_from_tape(tape) {
                let case = json!({"kind": "surface", "chain": chain});
                exec(&case, acc)?;
            }
            Ok(())
        },
    );
    rep.absorb(r);

    // the same legs under the release build (wrap-around must be identical in both profiles)
    if !env.child && cfg!(debug_assertions) {
        match run_child(env, "rel/release", &[]) {
            Ok(r) => {
                rep.acc.classn("release_build_evaluations", r.acc.evaluations);
                rep.absorb(r);
            }
            Err(e) => rep.health_errors.push(e),
        }
    }
    finish(env, rep)
}
