//! C05 — the Rust compiler agrees with the reference compiler on the corpus.
use crate::common::*;
use crate::engine::*;
use crate::rt::*;
use serde_json::{Value as J, json};
use std::cell::RefCell;
use std::collections::HashMap;
use std::rc::Rc;

const RULE: &str = "program set: every (source, reference .ink.json) pair of the conformance corpus. Generated input: \
choice paths — breadth-first enumeration of every path up to a depth and node cap per pair, plus generated deep \
walks (proptest tapes, choice = tape value scaled to the number of choices) — each under several story seeds. \
Oracle: the source compiled by this compiler and the reference document are played by the same runtime build \
with the same seed hook, the same deterministic external stubs and the same fuel; the transcripts (lines with \
tags, choices with tags, end, error kinds) and the final values of all global variables must be equal. A source \
this compiler rejects is a disagreement. The three pairs whose documents contain the shuffle command are \
compared modulo the shuffle: the shuffle order depends on the sequence container's path text, which the two \
compilers need not name alike, so the reference side is given the seed offset computed from the two path texts (the runtime seeds a \
shuffle with path-character sum + loop count + story seed); all paths and seeds must then agree. Non-trivial = path with at least one choice; distinct = (pair, seed, path).";

struct Pair {
    rust_json: Result<String, String>,
    ref_json: String,
    meta_rust: Rc<Meta>,
    meta_ref: Rc<Meta>,
    /// seed offset applied to the reference side (shuffle pairs), None when no offset reproduces
    shuffle: bool,
    offset: Option<i32>,
}

thread_local! {
    static PAIRS: RefCell<HashMap<String, Rc<Pair>>> = RefCell::new(HashMap::new());
}

const FUEL: u64 = 200_000;

fn play(json_text: &str, meta: &Rc<Meta>, seed: i32, path: &[usize]) -> Result<(Vec<Obs>, View, Option<usize>), String> {
    let cfg = HostCfg {
        seed,
        fuel: FUEL,
        handler: false,
        bind_externals: Some(true),
        allow_fallbacks: true,
    };
    let r = guard(|| {
        let mut h = Host::new(json_text, meta.clone(), &cfg).map_err(|e| format!("load: {e}"))?;
        h.apply(&HostOp::ContinueMax);
        for c in path {
            h.apply(&HostOp::ChooseMod(*c));
            h.apply(&HostOp::ContinueMax);
        }
        let n = match h.trace.last() {
            Some(Obs::Choices(c)) => Some(c.len()),
            _ => None,
        };
        let v = h.view();
        if h.fuel_exhausted() {
            return Err("fuel".to_string());
        }
        Ok((h.trace.clone(), v, n))
    });
    match r {
        Err(p) => Err(format!("panic at {}: {}", p.site(), p.msg)),
        Ok(x) => x,
    }
}

fn load_pair(rel: &str) -> Rc<Pair> {
    PAIRS.with(|m| {
        if let Some(p) = m.borrow().get(rel) {
            return p.clone();
        }
        let src = corpus_dir().join(rel);
        let refp = std::path::PathBuf::from(format!("{}.json", src.display()));
        let ref_json = strip_bom(&std::fs::read_to_string(&refp).unwrap_or_default()).to_string();
        let rust_json = compile_file(&src);
        let meta_ref = Rc::new(meta_from_json(&ref_json));
        let meta_rust = Rc::new(rust_json.as_ref().map(|j| meta_from_json(j)).unwrap_or_default());
        let shuffle = ref_json.contains("\"seq\"") || rust_json.as_ref().map(|j| j.contains("\"seq\"")).unwrap_or(false);
        let mut pair = Pair {
            rust_json,
            ref_json,
            meta_rust,
            meta_ref,
            shuffle,
            offset: Some(0),
        };
        if shuffle {
            // the runtime seeds a shuffle with (sum of the characters of the sequence container's
            // path) + loop count + story seed: equal orders need seed_ref = seed + (hash_rust - hash_ref)
            pair.offset = None;
            let hashes = |text: &str| -> Vec<i32> {
                serde_json::from_str::<J>(text)
                    .map(|d| {
                        crate::resolve::shuffle_container_paths(&d)
                            .iter()
                            .map(|p| p.chars().map(|c| c as i32).sum())
                            .collect()
                    })
                    .unwrap_or_default()
            };
            if let Ok(rj) = &pair.rust_json {
                let (ha, hb) = (hashes(rj), hashes(&pair.ref_json));
                if ha.len() == hb.len() && !ha.is_empty() {
                    let d: Vec<i32> = ha.iter().zip(hb.iter()).map(|(a, b)| a - b).collect();
                    if d.iter().all(|x| *x == d[0]) {
                        pair.offset = Some(d[0]);
                    }
                }
            }
        }
        let p = Rc::new(pair);
        m.borrow_mut().insert(rel.to_string(), p.clone());
        p
    })
}

fn no_msg(t: &[Obs]) -> Vec<Obs> {
    t.iter().map(|o| o.without_msg()).collect()
}

/// Compare the two documents of a pair along one path. Ok(number of choices at the end).
fn compare(rel: &str, seed: i32, path: &[usize], acc: &mut Acc) -> Result<Option<usize>, Fail> {
    let case = json!({"pair": rel, "seed": seed, "path": path});
    inflight(&case);
    let pair = load_pair(rel);
    acc.eval();
    let rj = match &pair.rust_json {
        Ok(j) => j,
        Err(e) => {
            return Err(Fail::violation(
                format!("{rel}|rejected"),
                format!("{rel}: this compiler rejects a source the reference compiler accepts: {e}"),
                case,
            ));
        }
    };
    let Some(off) = pair.offset else {
        return Err(Fail::violation(
            format!("{rel}|shuffle-offset"),
            format!("{rel}: the two documents do not hold the same number of shuffle sequences, or no single seed offset aligns them"),
            case,
        ));
    };
    let a = play(rj, &pair.meta_rust, seed, path);
    let b = play(&pair.ref_json, &pair.meta_ref, seed.wrapping_add(off), path);
    let (a, b) = match (a, b) {
        (Ok(a), Ok(b)) => (a, b),
        (Err(ea), Err(eb)) => {
            if ea == "fuel" || eb == "fuel" {
                acc.discard("fuel");
                return Ok(None);
            }
            // both fail to load or panic alike: not a compiler disagreement
            acc.discard("both_sides_fail");
            let _ = (ea, eb);
            return Ok(None);
        }
        (Err(e), Ok(_)) | (Ok(_), Err(e)) if e == "fuel" => {
            acc.discard("fuel");
            return Ok(None);
        }
        (Err(e), Ok(_)) => {
            return Err(Fail::violation(
                format!("{rel}|rust-side:{}", e.chars().take(60).collect::<String>()),
                format!("{rel}: the story compiled by this compiler fails where the reference-compiled one plays: {e}"),
                case,
            ));
        }
        (Ok(_), Err(e)) => {
            return Err(Fail::violation(
                format!("{rel}|ref-side:{}", e.chars().take(60).collect::<String>()),
                format!("{rel}: the reference-compiled story fails where this compiler's plays: {e}"),
                case,
            ));
        }
    };
    if !path.is_empty() {
        acc.nontrivial(fnv(&format!("{rel}|{seed}|{path:?}")));
    }
    if pair.shuffle {
        acc.class("compared_modulo_shuffle");
    }
    let (ta, tb) = (no_msg(&a.0), no_msg(&b.0));
    if let Some((i, x, y)) = first_diff(&ta, &tb) {
        return Err(Fail::violation(
            format!("{rel}|{}|{}", clip(&x), clip(&y)),
            format!("{rel}: transcripts differ at observation {i} along path {path:?} (seed {seed}): this compiler: {x}; reference: {y}"),
            case,
        ));
    }
    if a.1.globals != b.1.globals {
        let d = a
            .1
            .globals
            .iter()
            .find(|(k, v)| b.1.globals.get(*k) != Some(v))
            .map(|(k, v)| format!("{k}: {v} vs {:?}", b.1.globals.get(k)))
            .unwrap_or_else(|| {
                let extra: Vec<&String> = b.1.globals.keys().filter(|k| !a.1.globals.contains_key(*k)).collect();
                format!("only in reference: {extra:?}")
            });
        return Err(Fail::violation(
            format!("{rel}|globals|{}", clip(&d)),
            format!("{rel}: final global variables differ along path {path:?} (seed {seed}): {d}"),
            case,
        ));
    }
    Ok(a.2)
}

fn clip(s: &str) -> String {
    s.chars().take(70).collect()
}

pub fn exec(case: &J, acc: &mut Acc) -> Result<(), Fail> {
    let rel = case["pair"].as_str().unwrap_or("");
    let seed = case["seed"].as_i64().unwrap_or(42) as i32;
    let path: Vec<usize> = case["path"].as_array().map(|a| a.iter().filter_map(|x| x.as_u64()).map(|x| x as usize).collect()).unwrap_or_default();
    compare(rel, seed, &path, acc).map(|_| ())
}

fn bfs(rel: &str, seed: i32, max_depth: usize, cap: usize, acc: &mut Acc) -> Result<(), Fail> {
    let mut frontier: Vec<Vec<usize>> = vec![vec![]];
    let mut nodes = 0usize;
    let mut truncated = false;
    for depth in 0..=max_depth {
        let mut next = vec![];
        for p in &frontier {
            if nodes >= cap {
                truncated = true;
                break;
            }
            nodes += 1;
            if let Some(n) = compare(rel, seed, p, acc)? {
                if depth < max_depth {
                    for i in 0..n {
                        let mut q = p.clone();
                        q.push(i);
                        next.push(q);
                    }
                } else {
                    truncated = true;
                }
            }
        }
        if next.is_empty() {
            break;
        }
        frontier = next;
    }
    acc.class(if truncated { "bfs:bounded" } else { "bfs:exhaustive" });
    Ok(())
}

pub fn run(env: &Env) -> i32 {
    let mut rep = Report::new("translation_validation", RULE);
    rep.assumptions = vec![
        "both documents run on this runtime; agreement with the reference *runtime* is not claimed".into(),
        "error and warning message texts are not compared (they quote container paths, which the two compilers name differently); error kinds and positions are".into(),
        "externals declared by a story are bound to the same deterministic stub on both sides; fallbacks are allowed".into(),
        "shuffle pairs: one constant seed offset per pair (sufficient while a story has a single shuffle sequence)".into(),
        "fuel-bounded: a path that exhausts the step fuel on either side is discarded and counted".into(),
    ];
    if let Some(p) = &env.replay {
        return match load_replay_case(p) {
            Ok((_, case)) => {
                let mut acc = Acc::default();
                if let Err(f) = exec(&case, &mut acc) {
                    rep.fails.push(f);
                }
                rep.acc.merge(acc);
                finish(env, rep)
            }
            Err(e) => {
                println!("cannot load replay: {e}");
                2
            }
        };
    }
    replay_saved(env, &mut rep, &exec);
    let root = corpus_dir();
    let pairs: Vec<String> = corpus_pairs()
        .iter()
        .map(|(s, _)| s.strip_prefix(&root).unwrap_or(s).to_string_lossy().to_string())
        .collect();
    if pairs.len() < 100 {
        rep.health_errors.push(format!("only {} corpus pairs found", pairs.len()));
        return finish(env, rep);
    }
    rep.acc.classn("pairs", pairs.len() as u64);
    let seeds: Vec<i32> = (0..env.tier.pick(2, 5)).map(|k| (mix(env.seed, 500 + k as u64) % 100_000) as i32).collect();
    let depth = env.tier.pick(7, 12);
    let cap = env.cases(1200, 8000);
    let list: Vec<(String, i32)> = pairs.iter().flat_map(|p| seeds.iter().map(move |s| (p.clone(), *s))).collect();
    let r = run_list(env, &list, |item: &(String, i32), acc| bfs(&item.0, item.1, depth, cap, acc));
    rep.absorb(r);
    // generated deep walks, weighted towards the pairs the enumeration could not exhaust
    let np = pairs.len();
    let n = env.cases(8000, 80000);
    let big: Vec<usize> = pairs.iter().enumerate().filter(|(_, p)| p.contains("TheIntercept")).map(|(i, _)| i).collect();
    let r = run_cases(
        env,
        2,
        n,
        || ((0..np * 2, 0..100_000i32), proptest::collection::vec(proptest::num::u16::ANY, 0..120)),
        |((pi, seed), tape): &((usize, i32), Vec<u16>), acc: &mut Acc| {
            let idx = if *pi >= np && !big.is_empty() { big[pi % big.len()] } else { pi % np };
            let path: Vec<usize> = tape.iter().map(|v| *v as usize).collect();
            let case = json!({"pair": pairs[idx], "seed": seed, "path": path});
            acc.sample(|| case.clone());
            exec(&case, acc)
        },
    );
    rep.absorb(r);
    finish(env, rep)
}
