//! C17 — resetting a story is equivalent to constructing it afresh.
use crate::common::*;
use crate::engine::*;
use crate::lockstep::*;
use crate::pgen::Profile;
use crate::rt::*;
use serde_json::{Value as J, json};

const RULE: &str = "generated programs (+lists, RANDOM, shuffles, tunnels, threads, functions, externals) and \
reference corpus stories, each driven through a generated history (continues line by line, choices, \
save/load, flow switches and removal, path jumps with/without call-stack reset, set_variable, observers, \
evaluate_function, failing calls; in a third of the cases refused calls right before the reset, among them a reset asked for while a time-limited slice is paused mid-line, which must be refused) and then reset_state(); the reset story and a freshly constructed one \
(same seed, same registrations) are driven in lockstep through several continuation variants: every \
line, tag, choice list, error, external call and observer notification, the final view (globals, visit \
counts) and the canonical save (one default flow, zero turn index) must be equal; external bindings, \
observers and the error handler must still work. Second relation: after choose_path_string(p, reset) the \
continuation must not depend on the abandoned call stack. Non-trivial = before the reset the history had \
at least two of {call-stack depth > 1 or threads, pending choices, > 1 flow, an error, a load, non-default \
globals}; distinct = hash(program, history).";

fn profile() -> Profile {
    Profile {
        lists: true,
        random: true,
        shuffles: true,
        externals: true,
        ..Profile::default()
    }
}

fn is_registration(op: &HostOp) -> bool {
    matches!(
        op,
        HostOp::Observe { .. } | HostOp::Unobserve { .. } | HostOp::Bind { .. } | HostOp::Unbind(_)
    )
}

pub fn exec(case: &J, acc: &mut Acc) -> Result<(), Fail> {
    inflight(case);
    let (json_text, meta) = case_story(case)?;
    let cfg = cfg_from_json(&case["cfg"]);
    let ops = ops_from_json(&case["ops"]);
    let variants: Vec<usize> = case["tails"]
        .as_array()
        .map(|a| a.iter().filter_map(|v| v.as_u64().map(|x| x as usize)).collect())
        .unwrap_or_else(|| vec![0]);
    for &variant in &variants {
        acc.eval();
        let t = tail(variant, 3);
        // reset story
        let midslice_reset_accepted = std::cell::Cell::new(false);
        let r = guard(|| {
            let mut h = Host::new(&json_text, meta.clone(), &cfg).map_err(|e| e.to_string())?;
            h.run(&ops);
            if h.fuel_exhausted() {
                return Ok(None);
            }
            if case["refused_before_reset"].as_bool().unwrap_or(false) {
                // host calls the story refuses (they change nothing) just before the reset
                if !h.story.can_continue() {
                    let _ = h.story.cont();
                    let _ = h.story.continue_async(5.0);
                }
                let _ = h.story.choose_choice_index(999);
                let _ = h.story.choose_path_string("zz_nowhere", false, None);
                // ... and a reset asked for while a time-limited continue is paused mid-line: it
                // must be refused (the line is then finished before the reset proper)
                if h.story.can_continue() {
                    h.story.verif_set_async_step_budget(Some(1));
                    let _ = h.story.continue_async(1.0e9);
                    if h.story.verif_async_active() {
                        if h.story.reset_state().is_ok() {
                            midslice_reset_accepted.set(true);
                        }
                        h.story.verif_set_async_step_budget(None);
                        let _ = h.story.cont();
                    }
                    h.story.verif_set_async_step_budget(None);
                    h.trace.clear();
                }
                h.log.borrow_mut().clear();
            }
            let before_save = h.story.save_state().ok();
            let had_error = h.trace.iter().any(|o| matches!(o, Obs::Err { .. } | Obs::Handler { warning: false, .. }));
            let had_load = h.trace.iter().any(|o| matches!(o, Obs::Ret(s) if s == "loaded"));
            h.story.verif_set_fuel(Some(cfg.fuel));
            h.trace.clear();
            h.apply(&HostOp::Reset);
            let reset_obs = h.trace.clone();
            h.trace.clear();
            let save0 = h.canonical_save();
            let view0 = h.view();
            h.run(&t);
            Ok::<_, String>(Some((before_save, had_error, had_load, reset_obs, save0, view0, h.trace.clone(), h.view(), h.canonical_save(), h.fuel_exhausted())))
        });
        let (before_save, had_error, had_load, reset_obs, save0, view0, rtrace, rview, rsave, rfuel) = match r {
            Err(p) => return Err(panic_fail(&p, "history + reset", case)),
            Ok(Err(_)) => {
                acc.discard("story_new_failed");
                return Ok(());
            }
            Ok(Ok(None)) => {
                acc.discard("fuel");
                return Ok(());
            }
            Ok(Ok(Some(x))) => x,
        };
        if midslice_reset_accepted.get() {
            return Err(Fail::violation(
                "reset-accepted-mid-slice",
                "reset_state was accepted while a time-limited continue was paused in the middle of a line".to_string(),
                case.clone(),
            ));
        }
        if !matches!(reset_obs.last(), Some(Obs::Ret(_))) {
            return Err(Fail::violation(
                "reset-refused",
                format!("reset_state failed between host calls: {:?}", show_trace(&reset_obs)),
                case.clone(),
            ));
        }
        // non-triviality
        if let Some(s) = &before_save {
            let f = save_facts(s);
            let mut score = 0;
            if f.max_callstack_depth > 1 || f.max_threads > 1 {
                score += 1;
                acc.class("before_reset:deep_callstack_or_threads");
            }
            if f.pending_choices > 0 {
                score += 1;
                acc.class("before_reset:pending_choices");
            }
            if f.flows > 1 {
                score += 1;
                acc.class("before_reset:flows>1");
            }
            if had_error {
                score += 1;
                acc.class("before_reset:error");
            }
            if had_load {
                score += 1;
                acc.class("before_reset:load");
            }
            if s.contains("\"variablesState\":{\"") {
                score += 1;
                acc.class("before_reset:non_default_globals");
            }
            if score >= 2 {
                acc.nontrivial(fnv(&format!("{}{}", json_text, ops_to_json(&ops))));
            }
        }
        // fresh story with the same registrations
        let f = guard(|| {
            let mut h = Host::new(&json_text, meta.clone(), &cfg).map_err(|e| e.to_string())?;
            for op in ops.iter().filter(|o| is_registration(o)) {
                h.apply(op);
            }
            h.trace.clear();
            h.log.borrow_mut().clear();
            let save0 = h.canonical_save();
            let view0 = h.view();
            h.run(&t);
            Ok::<_, String>((save0, view0, h.trace.clone(), h.view(), h.canonical_save(), h.fuel_exhausted()))
        });
        let (fsave0, fview0, ftrace, fview, fsave, ffuel) = match f {
            Err(p) => return Err(panic_fail(&p, "fresh story", case)),
            Ok(Err(_)) => return Ok(()),
            Ok(Ok(x)) => x,
        };
        if let Some(d) = view0.without_diagnostics().diff(&fview0.without_diagnostics()) {
            return Err(Fail::violation(
                "reset-view-differs",
                format!("right after reset_state the story differs from a fresh one: {d}"),
                case.clone(),
            ));
        }
        if save0 != fsave0 {
            return Err(Fail::violation(
                "reset-save-differs",
                format!(
                    "right after reset_state the saved state differs from a fresh story's: {}",
                    crate::c02::json_diff(fsave0.as_deref().unwrap_or(""), save0.as_deref().unwrap_or(""))
                ),
                case.clone(),
            ));
        }
        if rfuel || ffuel {
            continue;
        }
        // warnings of the global declarations are delivered inside reset_state (handler already
        // registered) but at the first continue of a fresh story: same messages, different call
        let norm = |t: &[Obs]| -> Vec<Obs> {
            no_msgs(t)
                .into_iter()
                .filter(|o| !matches!(o, Obs::Handler { warning: true, .. }))
                .collect()
        };
        if let Some((i, a, b)) = first_diff(&norm(&rtrace), &norm(&ftrace)) {
            return Err(Fail::violation(
                "reset-continuation-differs",
                format!("after reset_state the story does not play like a fresh one (tail {variant}): observation {i}: reset {a} / fresh {b}"),
                case.clone(),
            ));
        }
        if let Some(d) = rview.without_diagnostics().diff(&fview.without_diagnostics()) {
            return Err(Fail::violation(
                "reset-final-view-differs",
                format!("final state after reset + replay differs from fresh + replay (tail {variant}): {d}"),
                case.clone(),
            ));
        }
        if rsave != fsave {
            return Err(Fail::violation(
                "reset-final-save-differs",
                format!(
                    "final saves differ (tail {variant}): {}",
                    crate::c02::json_diff(fsave.as_deref().unwrap_or(""), rsave.as_deref().unwrap_or(""))
                ),
                case.clone(),
            ));
        }
    }
    Ok(())
}

/// Second relation: choose_path_string(p, reset=true) abandons tunnels, threads and functions.
/// Two histories that differ only by where the story was when the jump happened (inside a
/// tunnel / thread choices pending / at the very start) must continue identically from p,
/// provided p's content does not read what the histories changed (generated so by construction:
/// the target knot prints constants only).
pub fn exec_jump(case: &J, acc: &mut Acc) -> Result<(), Fail> {
    let src = case["source"].as_str().unwrap_or("");
    let (json_text, meta) = compile_src(src).map_err(|e| Fail::harness(format!("jump source: {e}")))?;
    let cfg = cfg_from_json(&case["cfg"]);
    let ops = ops_from_json(&case["ops"]);
    let target = case["target"].as_str().unwrap_or("land").to_string();
    acc.eval();
    let run = |prefix: &[HostOp], reset: bool| {
        guard(|| {
            let mut h = Host::new(&json_text, meta.clone(), &cfg).map_err(|e| e.to_string())?;
            h.run(prefix);
            let depth = h.story.save_state().ok().map(|s| save_facts(&s));
            h.trace.clear();
            h.apply(&HostOp::ChoosePath { path: target.clone(), reset, args: vec![] });
            h.run(&tail(0, 2));
            let stack_after = h.story.save_state().ok().map(|s| save_facts(&s));
            Ok::<_, String>((depth, h.trace.clone(), stack_after, h.fuel_exhausted()))
        })
    };
    let a = run(&ops, true);
    let b = run(&[], true);
    // on the flat call stack of a fresh story a jump with reset is a plain jump
    let c = run(&[], false);
    if let (Ok(Ok((_, tb, _, fb))), Ok(Ok((_, tc, _, fc)))) = (&b, &c) {
        if !fb && !fc {
            if let Some((i, x, y)) = first_diff(&no_msgs(tb), &no_msgs(tc)) {
                return Err(Fail::violation(
                    "jump-reset-differs-from-plain-jump",
                    format!("from a fresh story choose_path_string(.., reset=true) and (.., reset=false) behave differently at observation {i}: with reset {x} / without {y}"),
                    case.clone(),
                ));
            }
        }
    }
    match (a, b) {
        (Err(p), _) | (_, Err(p)) => Err(panic_fail(&p, "path jump", case)),
        (Ok(Ok((da, ta, _sa, fa))), Ok(Ok((_db, tb, _sb, fb)))) => {
            if fa || fb {
                acc.discard("fuel");
                return Ok(());
            }
            if let Some(d) = da {
                if d.max_callstack_depth > 1 || d.max_threads > 1 || d.pending_choices > 0 {
                    acc.nontrivial(fnv(&case.to_string()));
                    acc.class("jump:from_nested_state");
                }
            }
            if let Some((i, x, y)) = first_diff(&no_msgs(&ta), &no_msgs(&tb)) {
                return Err(Fail::violation(
                    "jump-reset-depends-on-abandoned-stack",
                    format!("choose_path_string(.., reset=true) did not abandon the call stack: continuation differs at observation {i}: after history {x} / from start {y}"),
                    case.clone(),
                ));
            }
            Ok(())
        }
        _ => Ok(()),
    }
}

pub fn exec_any(case: &J, acc: &mut Acc) -> Result<(), Fail> {
    if case["kind"] == "jump" {
        exec_jump(case, acc)
    } else {
        exec(case, acc)
    }
}

fn jump_source(t: &mut crate::pgen::Tape) -> (String, Vec<HostOp>) {
    // a story whose history leaves it inside a tunnel, a thread with pending choices, or a
    // function-free nested state; `land` prints constants and returns with ->-> (an error at
    // top level, exactly as in a fresh story)
    let mut s = String::from("VAR n = 0\n-> start\n=== start ===\nBegin.\n");
    // the history either runs to the first stop or stops after 1-3 single lines (which may
    // leave the story inside a thread or a tunnel that has printed but not finished)
    let mut ops = if t.chance(1, 2) {
        vec![HostOp::ContinueMax]
    } else {
        (0..1 + t.pick(3)).map(|_| HostOp::Continue).collect()
    };
    match t.pick(3) {
        0 => {
            s.push_str("-> tun ->\nBack.\n-> END\n");
        }
        1 => {
            s.push_str("<- thr\n* [here]\n    Here.\n    -> END\n");
        }
        _ => {
            s.push_str("-> tun ->\n<- thr\n* [here]\n    -> tun ->\n    -> END\n");
        }
    }
    s.push_str("=== tun ===\nIn tunnel.\n~ n = n + 1\n* [deeper]\n    -> tun2 ->\n    ->->\n* [out]\n    ->->\n=== tun2 ===\nDeeper.\n* [stay]\n    Stay.\n    ->->\n");
    s.push_str("=== thr ===\nThread text.\nMore thread text.\n* [thread choice]\n    From thread.\n    -> END\n");
    let ending = ["->->", "-> END", "-> DONE"][t.pick(3)];
    s.push_str(&format!("=== land ===\nLanded.\n* [go on]\n    On we go.\n    {ending}\n* [stop]\n    {ending}\n"));
    // a target that runs out of content at once (no text, no END), and one that does after a line
    s.push_str("=== loose ===\n~ n = n + 5\n=== loose2 ===\nLoose line.\n~ n = n + 7\n");
    let n = t.pick(4);
    for _ in 0..n {
        ops.push(HostOp::ChooseMod(t.pick(3)));
        ops.push(if t.chance(1, 2) { HostOp::ContinueMax } else { HostOp::Continue });
    }
    (s, ops)
}

pub fn run(env: &Env) -> i32 {
    let mut rep = Report::new("exploration", RULE);
    rep.assumptions = vec![
        "the seed hook re-applies the same story seed after reset (the runtime draws a new random seed on every reset)".into(),
        "warnings raised by global declarations are compared as a multiset across {reset call + replay} vs {fresh replay}, not by the call that delivers them".into(),
        "diagnostic message texts are not compared".into(),
        "fuel-bounded; mid-line resets (unfinished continue_async) are refused by the engine and exercised by C08".into(),
    ];
    if let Some(p) = &env.replay {
        return match load_replay_case(p) {
            Ok((_, case)) => {
                let mut acc = Acc::default();
                if let Err(f) = exec_any(&case, &mut acc) {
                    rep.fails.push(f);
                }
                rep.acc.merge(acc);
                finish(env, rep)
            }
            Err(e) => {
                println!("cannot load replay: {e}");
                2
            }
        };
    }
    replay_saved(env, &mut rep, &exec_any);
    let prof = profile();
    let hp = HistProfile {
        reset: 1,
        ..HistProfile::everything()
    };
    let n = env.cases(6000, 150000);
    let r = run_cases(
        env,
        1,
        n,
        || case_strategy(1500, 60),
        |gc: &GenCase, acc: &mut Acc| {
            let Some(b) = build_or_discard(&gc.prog, &prof, acc) else {
                return Ok(());
            };
            let ops = decode_history(&gc.hist, &b.meta, &hp);
            let cfg = HostCfg {
                handler: gc.hist.first().map(|v| v & 1 == 1).unwrap_or(false),
                allow_fallbacks: true,
                ..HostCfg::default()
            };
            let v = gc.hist.last().copied().unwrap_or(0) as usize;
            let case = json!({"source": b.src, "cfg": cfg_to_json(&cfg), "ops": ops_to_json(&ops), "tails": [v, v / 7 + 1], "refused_before_reset": v % 3 == 0});
            acc.sample(|| case.clone());
            exec(&case, acc)
        },
    );
    rep.absorb(r);
    let docs = corpus_jsons();
    if !docs.is_empty() {
        let nd = docs.len();
        let n2 = env.cases(2500, 50000);
        let r = run_cases(
            env,
            2,
            n2,
            || (0..nd, proptest::collection::vec(proptest::num::u16::ANY, 0..60)),
            |(di, hist): &(usize, Vec<u16>), acc: &mut Acc| {
                let path = docs[*di].display().to_string();
                let Ok(doc) = std::fs::read_to_string(&docs[*di]) else {
                    return Ok(());
                };
                let meta = meta_from_json(strip_bom(&doc));
                let ops = decode_history(hist, &meta, &hp);
                let cfg = HostCfg {
                    handler: hist.first().map(|v| v & 1 == 1).unwrap_or(false),
                    allow_fallbacks: true,
                    ..HostCfg::default()
                };
                let v = hist.last().copied().unwrap_or(0) as usize;
                acc.class("corpus_story");
                let case = json!({"corpus_file": path, "cfg": cfg_to_json(&cfg), "ops": ops_to_json(&ops), "tails": [v], "refused_before_reset": v % 3 == 0});
                exec(&case, acc)
            },
        );
        rep.absorb(r);
    }
    let n3 = env.cases(1500, 30000);
    let r = run_cases(
        env,
        3,
        n3,
        || proptest::collection::vec(proptest::num::u16::ANY, 0..40),
        |tape: &Vec<u16>, acc: &mut Acc| {
            let mut t = crate::pgen::Tape::new(tape);
            let (src, ops) = jump_source(&mut t);
            let target = ["land", "land", "loose", "loose2"][t.pick(4)];
            let handler = t.chance(1, 2);
            let case = json!({"kind": "jump", "source": src, "cfg": cfg_to_json(&HostCfg { handler, ..HostCfg::default() }), "ops": ops_to_json(&ops), "target": target});
            acc.class(&format!("jump_target:{target}"));
            exec_jump(&case, acc)
        },
    );
    rep.absorb(r);
    finish(env, rep)
}
