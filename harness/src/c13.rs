//! C13 — every runtime error and warning is delivered exactly once.
use crate::common::*;
use crate::engine::*;
use crate::lockstep::*;
use crate::pgen::Tape;
use crate::rt::*;
use serde_json::{Value as J, json};
use std::collections::BTreeMap;

const RULE: &str = "generated chain programs s0 -> s1 -> ... -> END in which uniquely identifiable warning and \
error sites are planted before a line (logic line reading a temp declared in an untaken branch), inside a line \
(division by a zero-valued variable, TURNS_SINCE through a non-target variable), after a line end (divert through \
a variable holding an int, ->-> outside a tunnel, ~ return outside a function, missing END at the end of the \
chain) and inside choice bodies; optionally the compiled JSON's inkVersion is rewritten to 20 (constructor \
warning). A reactive host continues line by line, picks choices, and after an error either resets or (with a \
handler) redirects to the next knot with choose_path_string(reset). Oracle: every site message is delivered \
at most once per play-through, exactly once if the story got past the site, with the right type; with a \
handler cont() returns Ok and the lists are cleared; without a handler an error makes that cont() return Err \
naming the first error and stays in get_current_errors() until reset_state, a warning never causes Err and is \
listed once in get_current_warnings(); after an error the story cannot continue until reset/redirect; after \
reset_state both lists are empty; when an error is delivered, every warning site the flow passed before the \
failing site (also one raised in the very same continue) has been delivered exactly once; the constructor's \
version warning reaches a handler with the first continue. Non-trivial = play-through with >= 1 delivered message followed by >= 2 \
further continues; distinct = hash(program, policy, handler?).";

#[derive(Debug, Clone, PartialEq)]
enum ErrKind {
    DivZero,
    TurnsSinceVar,
    DivertVar,
    TunnelReturn,
    FuncReturn,
}

#[derive(Debug, Clone)]
struct KnotSpec {
    pre_warns: usize,
    inline_err: Option<ErrKind>,
    inline_warn: bool,
    post_err: Option<ErrKind>,
    choice: bool,
    choice_warn: bool,
    /// a second choice whose condition divides by zero: the error is raised while the choices
    /// are gathered, after the first (visible) one has been generated
    choice_err: bool,
}

struct Chain {
    src: String,
    n: usize,
    missing_end: bool,
    /// warning ids (variable names) with the knot they belong to and where in the knot they sit
    /// (0 = logic line before the text line, 1 = inside the text line, 2 = in the choice body)
    warns: Vec<(String, usize, u8)>,
    /// error knots
    errs: Vec<usize>,
    /// error knots whose error sits inside the text line (the others fail after the line)
    inline_errs: Vec<usize>,
}

fn gen_chain(t: &mut Tape) -> Chain {
    let n = 2 + t.pick(6);
    let mut src = String::from("VAR zero = 0\nVAR acc = 0\n");
    let mut specs = vec![];
    for _ in 0..n {
        let mut k = KnotSpec {
            pre_warns: [0, 0, 1, 2][t.pick(4)],
            inline_err: None,
            inline_warn: t.chance(1, 6),
            post_err: None,
            choice: t.chance(1, 4),
            choice_warn: false,
            choice_err: false,
        };
        match t.pick(9) {
            0 => k.inline_err = Some(ErrKind::DivZero),
            1 => k.inline_err = Some(ErrKind::TurnsSinceVar),
            2 => k.post_err = Some(ErrKind::DivertVar),
            3 => k.post_err = Some(ErrKind::TunnelReturn),
            4 => k.post_err = Some(ErrKind::FuncReturn),
            _ => {}
        }
        if k.choice {
            k.choice_warn = t.chance(1, 2);
            k.choice_err = k.inline_err.is_none() && k.post_err.is_none() && t.chance(1, 3);
        }
        specs.push(k);
    }
    let missing_end = t.chance(1, 5);
    if missing_end {
        // a knot that ends in an (empty) gather is closed by the compiler with an implicit
        // `done`; only a knot that ends in plain content runs out of content
        if let Some(last) = specs.last_mut() {
            last.choice = false;
            last.choice_warn = false;
            last.choice_err = false;
        }
    }
    for i in 0..n {
        src.push_str(&format!("VAR dv{i} = {}\n", 3 + i));
    }
    src.push_str("-> s0\n");
    let mut warns = vec![];
    let mut errs = vec![];
    let mut inline_errs = vec![];
    let mut wn = 0;
    for (i, k) in specs.iter().enumerate() {
        src.push_str(&format!("=== s{i} ===\n"));
        // declarations in an untaken branch
        let mut names = vec![];
        for _ in 0..(k.pre_warns + k.inline_warn as usize + k.choice_warn as usize) {
            names.push(format!("w{wn}"));
            wn += 1;
        }
        if !names.is_empty() {
            src.push_str("{ zero == 1:\n");
            for nm in &names {
                src.push_str(&format!("    ~ temp {nm} = 1\n"));
            }
            src.push_str("}\n");
        }
        let mut it = names.into_iter();
        for _ in 0..k.pre_warns {
            let nm = it.next().unwrap();
            src.push_str(&format!("~ acc = acc + {nm}\n"));
            warns.push((nm, i, 0));
        }
        let mut line = format!("Line {i}");
        if k.inline_warn {
            let nm = it.next().unwrap();
            line.push_str(&format!(" {{{nm}}}"));
            warns.push((nm, i, 1));
        }
        match k.inline_err {
            Some(ErrKind::DivZero) => line.push_str(" {1 / zero}"),
            Some(ErrKind::TurnsSinceVar) => line.push_str(&format!(" {{TURNS_SINCE(dv{i})}}")),
            _ => {}
        }
        line.push_str(" end.\n");
        src.push_str(&line);
        if k.inline_err.is_some() {
            errs.push(i);
            inline_errs.push(i);
        }
        if k.choice {
            src.push_str(&format!("* [pick {i}]\n"));
            if k.choice_warn {
                let nm = it.next().unwrap();
                src.push_str(&format!("    Chosen {i} {{{nm}}}.\n"));
                warns.push((nm, i, 2));
            } else {
                src.push_str(&format!("    Chosen {i}.\n"));
            }
            if k.choice_err {
                src.push_str(&format!("* {{1 / zero > 0}} [bad {i}]\n    Never {i}.\n"));
                errs.push(i);
                // (the choice body, where a warning may sit, is not reached before this error)
                inline_errs.push(i);
            }
            src.push_str("-\n");
        }
        match k.post_err {
            Some(ErrKind::DivertVar) => src.push_str(&format!("-> dv{i}\n")),
            Some(ErrKind::TunnelReturn) => src.push_str("->->\n"),
            Some(ErrKind::FuncReturn) => src.push_str("~ return\n"),
            _ => {}
        }
        if k.post_err.is_some() && k.inline_err.is_none() {
            errs.push(i);
        }
        if k.post_err.is_none() {
            if i + 1 < n {
                src.push_str(&format!("-> s{}\n", i + 1));
            } else if !missing_end {
                src.push_str("-> END\n");
            }
        }
    }
    Chain {
        src,
        n,
        missing_end,
        warns,
        errs,
        inline_errs,
    }
}

fn rewrite_version(json_text: &str) -> String {
    json_text.replacen("\"inkVersion\":21", "\"inkVersion\":20", 1)
}

pub fn exec(case: &J, acc: &mut Acc) -> Result<(), Fail> {
    inflight(case);
    let src = case["source"].as_str().unwrap_or("");
    let (mut json_text, meta) = compile_src(src).map_err(|e| Fail::harness(format!("chain source does not compile: {e}\n{src}")))?;
    let old_version = case["old_version"].as_bool().unwrap_or(false);
    if old_version {
        json_text = rewrite_version(&json_text);
    }
    let handler = case["handler"].as_bool().unwrap_or(false);
    let n = case["knots"].as_u64().unwrap_or(0) as usize;
    let missing_end = case["missing_end"].as_bool().unwrap_or(false);
    // (name, knot, place in the knot; cases saved before the place was recorded have None)
    let warns: Vec<(String, usize, Option<u64>)> = case["warns"]
        .as_array()
        .map(|a| a.iter().map(|w| (w[0].as_str().unwrap_or("").to_string(), w[1].as_u64().unwrap_or(0) as usize, w[2].as_u64())).collect())
        .unwrap_or_default();
    let inline_errs: Option<Vec<usize>> = case["inline_errs"]
        .as_array()
        .map(|a| a.iter().filter_map(|x| x.as_u64().map(|v| v as usize)).collect());
    let errs: Vec<usize> = case["errs"]
        .as_array()
        .map(|a| a.iter().filter_map(|x| x.as_u64().map(|v| v as usize)).collect())
        .unwrap_or_default();
    let policy: Vec<u64> = case["policy"]
        .as_array()
        .map(|a| a.iter().filter_map(|x| x.as_u64()).collect())
        .unwrap_or_default();
    let cfg = HostCfg {
        handler,
        ..HostCfg::default()
    };
    acc.eval();
    let fail = |key: &str, msg: String| Fail::violation(key, msg, case.clone());

    // classify a message: Some(site id)
    let classify = |m: &str| -> Option<String> {
        for (w, _, _) in &warns {
            if m.contains(&format!("'{w}'")) {
                return Some(format!("W:{w}"));
            }
        }
        if m.contains("ran out of content") {
            return Some("E:end".into());
        }
        if m.contains("Version of ink") {
            return Some("W:version".into());
        }
        for i in 0..n {
            if m.contains(&format!("(s{i}.")) || m.contains(&format!("(s{i})")) {
                return Some(format!("E:s{i}"));
            }
        }
        None
    };

    let r = guard(|| -> Result<(usize, usize), Result<Fail, String>> {
        let mut h = Host::new(&json_text, meta.clone(), &cfg).map_err(|e| Err(e.to_string()))?;
        let mut pi = 0usize;
        let mut next_policy = |k: u64| -> u64 {
            let v = policy.get(pi).copied().unwrap_or(0) % k.max(1);
            pi += 1;
            v
        };
        let mut delivered: BTreeMap<String, usize> = BTreeMap::new();
        let mut furthest_line: i64 = -1; // highest knot whose line was delivered
        let mut reached_end = false;
        let mut continues_after_first_msg = 0usize;
        let mut total_msgs = 0usize;
        let mut segment = 0;
        let mut steps = 0;
        let mut jumped = false;
        let mut segment_start: usize = 0;
        'outer: while steps < 60 {
            steps += 1;
            if h.story.can_continue() {
                // sometimes the host jumps ahead on its own (path jump with call-stack reset)
                if steps > 1 && next_policy(7) == 0 && furthest_line >= 0 && (furthest_line as usize) + 1 < n {
                    let span = n - 1 - furthest_line as usize;
                    let target = furthest_line as usize + 1 + (next_policy(span as u64) as usize);
                    h.apply(&HostOp::ChoosePath { path: format!("s{target}"), reset: true, args: vec![] });
                    // (same play-through: jumps only go forward, so no site can fire twice)
                    furthest_line = -1;
                    segment_start = target;
                    jumped = true;
                    continue;
                }
                h.log.borrow_mut().clear();
                let warnings_before = h.story.get_current_warnings().len();
                let r = h.story.cont();
                let log: Vec<Obs> = h.log.borrow_mut().drain(..).collect();
                if total_msgs > 0 {
                    continues_after_first_msg += 1;
                }
                let mut msgs: Vec<(bool, String)> = vec![];
                if handler {
                    for o in &log {
                        if let Obs::Handler { warning, msg } = o {
                            msgs.push((*warning, msg.clone()));
                        }
                    }
                    if let Err(e) = &r {
                        return Err(Ok(fail("handler-continue-err", format!("with an error handler cont() returned Err: {e}"))));
                    }
                    if !h.story.get_current_errors().is_empty() || !h.story.get_current_warnings().is_empty() {
                        return Err(Ok(fail("lists-not-cleared", format!("with a handler, messages stay listed after delivery: errors {:?} warnings {:?}", h.story.get_current_errors(), h.story.get_current_warnings()))));
                    }
                } else {
                    let errors = h.story.get_current_errors().to_vec();
                    let warnings = h.story.get_current_warnings().to_vec();
                    match &r {
                        Err(e) => {
                            if errors.is_empty() {
                                return Err(Ok(fail("err-without-error", format!("cont() returned Err but get_current_errors() is empty: {e}"))));
                            }
                            if !e.to_string().contains(&errors[0]) {
                                return Err(Ok(fail("err-names-wrong-error", format!("cont() Err does not name the first error: {e} / {:?}", errors))));
                            }
                        }
                        Ok(_) => {
                            if !errors.is_empty() {
                                return Err(Ok(fail("error-without-err", format!("an error was raised but cont() returned Ok without a handler: {:?}", errors))));
                            }
                        }
                    }
                    for e in &errors {
                        msgs.push((false, e.clone()));
                    }
                    for w in warnings.iter().skip(warnings_before) {
                        msgs.push((true, w.clone()));
                    }
                    // duplicates in the warnings list
                    let mut seen = std::collections::BTreeSet::new();
                    for w in &warnings {
                        if !seen.insert(w.clone()) {
                            return Err(Ok(fail("warning-duplicated", format!("get_current_warnings() lists a warning twice: {w}"))));
                        }
                    }
                }
                let mut had_error = false;
                for (is_warning, m) in &msgs {
                    total_msgs += 1;
                    match classify(m) {
                        None => {
                            return Err(Ok(fail("unexpected-message", format!("message that no planted site explains: {m}"))));
                        }
                        Some(id) => {
                            if id.starts_with("W:") != *is_warning {
                                return Err(Ok(fail("wrong-type", format!("message delivered with the wrong type (warning={is_warning}): {m}"))));
                            }
                            let c = delivered.entry(format!("{segment}:{id}")).or_insert(0);
                            *c += 1;
                            if *c > 1 {
                                return Err(Ok(fail("delivered-twice", format!("message delivered {} times in one play-through: {m}", *c))));
                            }
                            if !is_warning {
                                had_error = true;
                            }
                        }
                    }
                }
                // A message stops nothing but an error does: when an error is delivered, every
                // warning site the flow went through on its way to the failing site (earlier knots
                // of this play-through segment, and the sites of the failing knot that precede the
                // error) has fired, in this continue or an earlier one, and must have been
                // delivered exactly once by now - also a warning raised in the very continue
                // that raised the error.
                if let Some(inl) = &inline_errs {
                    for (is_warning, m) in &msgs {
                        if *is_warning {
                            continue;
                        }
                        let failing: Option<(usize, bool)> = match classify(m).as_deref() {
                            Some("E:end") => Some((n.saturating_sub(1), false)),
                            Some(id) => id.strip_prefix("E:s").and_then(|x| x.parse::<usize>().ok()).map(|k| (k, inl.contains(&k))),
                            None => None,
                        };
                        let Some((fk, inline)) = failing else { continue };
                        for (w, k, place) in &warns {
                            let Some(place) = place else { continue };
                            let before = *k >= segment_start && (*k < fk || (*k == fk && (!inline || *place <= 1)));
                            if before && delivered.get(&format!("{segment}:W:{w}")).copied().unwrap_or(0) != 1 {
                                return Err(Ok(fail(
                                    "not-delivered",
                                    format!("the error of knot s{fk} was delivered ({m}) but the warning about '{w}' (knot s{k}, which the flow passed before it, segment started at s{segment_start}) never was"),
                                )));
                            }
                        }
                    }
                }
                // the constructor's warning (old ink version) is handed to the handler with the
                // first delivery
                if handler && old_version && steps == 1 && delivered.get("0:W:version").copied().unwrap_or(0) != 1 {
                    return Err(Ok(fail(
                        "not-delivered",
                        format!("the constructor's version warning was not handed to the handler with the first delivery ({:?})", msgs),
                    )));
                }
                if let Ok(text) = &r {
                    for i in 0..n {
                        if text.contains(&format!("Line {i} ")) || text.contains(&format!("Line {i}\n")) || text.trim_end() == format!("Line {i}") {
                            furthest_line = furthest_line.max(i as i64);
                        }
                    }
                }
                if had_error {
                    if h.story.can_continue() {
                        return Err(Ok(fail("error-does-not-stop", "after an error the story can still continue".to_string())));
                    }
                    let left: Vec<String> = h.story.get_current_choices().iter().map(|c| c.text.clone()).collect();
                    if !left.is_empty() {
                        return Err(Ok(fail("error-does-not-stop", format!("the story was stopped by an error but still offers choices {left:?}"))));
                    }
                    // react: reset, redirect (handler only), or stop
                    let choice = next_policy(3);
                    let err_knot = furthest_line.max(0) as usize;
                    if choice == 0 {
                        break 'outer;
                    } else if choice == 1 {
                        h.apply(&HostOp::Reset);
                        if !h.story.get_current_errors().is_empty() || !h.story.get_current_warnings().is_empty() {
                            return Err(Ok(fail("reset-keeps-messages", format!("after reset_state: errors {:?} warnings {:?}", h.story.get_current_errors(), h.story.get_current_warnings()))));
                        }
                        segment += 1;
                        segment_start = 0;
                        furthest_line = -1;
                        if segment > 2 {
                            break 'outer;
                        }
                    } else {
                        // redirect past the failing knot. Without a handler the error stays listed,
                        // so the story must either stay stopped or, if it does continue, never
                        // hand the old error out again (the accounting below sees that)
                        let mut target = err_knot + 1;
                        // the failing knot is the one after the last delivered line when its own line failed
                        if target >= n {
                            break 'outer;
                        }
                        if errs.contains(&target) && next_policy(2) == 0 && target + 1 < n {
                            target += 1;
                        }
                        h.apply(&HostOp::ChoosePath { path: format!("s{target}"), reset: true, args: vec![] });
                        // sites between the failing knot and the target are skipped, not passed
                        furthest_line = -1;
                        segment_start = target;
                    }
                }
            } else {
                let nchoices = h.story.get_current_choices().len();
                if nchoices > 0 {
                    let _ = h.story.choose_choice_index(0);
                } else {
                    reached_end = true;
                    break;
                }
            }
        }
        // exactly-once for passed sites of the last play-through segment
        let seg = segment;
        if furthest_line >= 0 {
            for (w, k, _) in &warns {
                // only sites of knots the story went through in this segment
                let passed = *k >= segment_start && (*k as i64) < furthest_line;
                if passed && delivered.get(&format!("{seg}:W:{w}")).copied().unwrap_or(0) != 1 {
                    return Err(Ok(fail("not-delivered", format!("the story got past knot s{k} (line {furthest_line} delivered, segment started at s{segment_start}) but the warning about '{w}' was never delivered"))));
                }
            }
        }
        // a chain whose last knot forgot its END must report running out of content when the
        // story gets there, however it got there (normal flow, redirect or path jump)
        if reached_end
            && missing_end
            && n > 0
            && furthest_line == n as i64 - 1
            && !errs.contains(&(n - 1))
            && delivered.get(&format!("{seg}:E:end")).copied().unwrap_or(0) != 1
        {
            return Err(Ok(fail(
                "not-delivered",
                format!("the story ran out of content in its last knot (no END) but no error was delivered (after a path jump: {jumped})"),
            )));
        }
        Ok((total_msgs, continues_after_first_msg))
    });
    match r {
        Err(p) => Err(panic_fail(&p, "chain story", case)),
        Ok(Err(Ok(f))) => Err(f),
        Ok(Err(Err(_))) => {
            acc.discard("story_new_failed");
            Ok(())
        }
        Ok(Ok((msgs, later))) => {
            if msgs >= 1 && later >= 2 {
                acc.nontrivial(fnv(&case.to_string()));
            }
            acc.classn("messages_delivered", msgs as u64);
            Ok(())
        }
    }
}

/// the two cases (with / without handler) a tape stands for
pub fn cases_from_tape(tape: &[u16]) -> Vec<J> {
    let mut t = Tape::new(tape);
    let chain = gen_chain(&mut t);
    let policy: Vec<u64> = (0..16).map(|_| t.next() as u64).collect();
    [true, false]
        .iter()
        .map(|handler| {
            json!({
                "source": chain.src, "knots": chain.n, "missing_end": chain.missing_end,
                "warns": chain.warns.iter().map(|(w, k, p)| json!([w, k, p])).collect::<Vec<_>>(),
                "errs": chain.errs, "inline_errs": chain.inline_errs, "policy": policy, "handler": handler,
                "old_version": tape.first().map(|v| v % 5 == 0).unwrap_or(false),
            })
        })
        .collect()
}

pub fn run(env: &Env) -> i32 {
    let mut rep = Report::new("exploration", RULE);
    rep.assumptions = vec![
        "sites are identified by the unique variable name or knot path the runtime puts into its message".into(),
        "redirection after an error is exercised with a handler only (without one the error stays listed until reset_state, which keeps the story stopped)".into(),
        "a message no planted site explains is reported as a violation (the chain programs contain no other fault)".into(),
    ];
    if let Some(p) = &env.replay {
        return match load_replay_case(p) {
            Ok((_, case)) => {
                let mut acc = Acc::default();
                if let Err(f) = exec(&case, &mut acc) {
                    rep.fails.push(f);
                }
                rep.acc.merge(acc);
                finish(env, rep)
            }
            Err(e) => {
                println!("cannot load replay: {e}");
                2
            }
        };
    }
    replay_saved(env, &mut rep, &exec);
    let n = env.cases(100000, 800000);
    let r = run_cases(
        env,
        1,
        n,
        || proptest::collection::vec(proptest::num::u16::ANY, 0..200),
        |tape: &Vec<u16>, acc: &mut Acc| {
            for case in cases_from_tape(tape) {
                acc.sample(|| case.clone());
                exec(&case, acc)?;
            }
            Ok(())
        },
    );
    rep.absorb(r);
    let _ = tail(0, 0);
    finish(env, rep)
}
