//! C07 — expressions over numbers, strings and lists evaluate as Ink specifies.
//! Generator and reference evaluator are one recursive procedure: every generated expression
//! comes with the value Ink's rules give it (written from the Ink documentation and the
//! documented behaviour of the reference engine; no code shared with /repo).
use crate::common::*;
use crate::engine::*;
use crate::pgen::Tape;
use crate::rt::*;
use serde_json::{Value as J, json};
use std::collections::{BTreeMap, BTreeSet};

const RULE: &str = "type-directed expression trees (depth <= 4) over int literals and variables (|v| <= 1000), floats k/8, \
bools, short strings, and list values from 2-4 generated LIST declarations (explicit values, equal values in \
different lists, shared item names, initially selected items, empty lists with and without known origins). \
Operators: + - * / % unary -, not, and/or, == != < > <= >=, MIN MAX POW FLOOR CEILING INT FLOAT, string + and \
? / !?, list + - ^ ? !? == != < > <= >=, list +/- int, LIST_COUNT/MIN/MAX/ALL/INVERT/RANGE/VALUE, ListName(n), \
ListName(). Faulting combinations (division by zero, overflow, inexact float division) are avoided by \
construction. 8-20 expressions are packed into one program, each assigned to a global (`~ o = e`), printed \
(`{o}`) and printed inline (`{e}`), in segments separated by choice points; list variables are also cleared \
(`~ v = ()`) right before a choice point and inspected after it. Oracle: printed text and the typed value \
read with get_variable equal the reference evaluator's result (list items compared as sets of \
(origin, item, value); where Ink leaves the chosen item open under ties any tied item is accepted). \
Non-trivial = expression with >= 2 operators and >= 2 operand types, or >= 1 list operator; distinct = \
expression text.";

#[derive(Debug, Clone, PartialEq)]
pub struct ListV {
    /// (origin, item, value)
    items: BTreeSet<(String, String, i32)>,
    /// origin names an empty list remembers
    origins: BTreeSet<String>,
}

impl ListV {
    fn empty() -> ListV {
        ListV {
            items: BTreeSet::new(),
            origins: BTreeSet::new(),
        }
    }
    fn origin_names(&self) -> BTreeSet<String> {
        if self.items.is_empty() {
            self.origins.clone()
        } else {
            self.items.iter().map(|i| i.0.clone()).collect()
        }
    }
    fn min(&self) -> Option<i32> {
        self.items.iter().map(|i| i.2).min()
    }
    fn max(&self) -> Option<i32> {
        self.items.iter().map(|i| i.2).max()
    }
    /// printing order: value, then origin name
    fn print(&self) -> String {
        let mut v: Vec<&(String, String, i32)> = self.items.iter().collect();
        v.sort_by(|a, b| a.2.cmp(&b.2).then(a.0.cmp(&b.0)).then(a.1.cmp(&b.1)));
        v.iter().map(|i| i.1.clone()).collect::<Vec<_>>().join(", ")
    }
    fn render(&self) -> String {
        if self.items.is_empty() {
            format!("L:[]@{}", self.origins.iter().cloned().collect::<Vec<_>>().join(","))
        } else {
            let mut items: Vec<String> = self.items.iter().map(|i| format!("{}.{}={}", i.0, i.1, i.2)).collect();
            items.sort();
            format!("L:[{}]", items.join(","))
        }
    }
}

#[derive(Debug, Clone, PartialEq)]
pub enum V {
    I(i32),
    F(f32),
    B(bool),
    S(String),
    L(ListV),
}

impl V {
    fn print(&self) -> String {
        match self {
            V::I(i) => i.to_string(),
            V::F(f) => format!("{f}"),
            V::B(b) => b.to_string(),
            V::S(s) => s.clone(),
            V::L(l) => l.print(),
        }
    }
    fn render(&self) -> String {
        match self {
            V::I(i) => format!("I:{i}"),
            V::F(f) => format!("F:{f:?}"),
            V::B(b) => format!("B:{b}"),
            V::S(s) => format!("S:{s:?}"),
            V::L(l) => l.render(),
        }
    }
    fn ty(&self) -> u8 {
        match self {
            V::B(_) => 0,
            V::I(_) => 1,
            V::F(_) => 2,
            V::L(_) => 3,
            V::S(_) => 4,
        }
    }
}

#[derive(Clone)]
struct Decl {
    lists: Vec<(String, Vec<(String, i32, bool)>)>,
    /// global variables with their initial expression text and value
    vars: Vec<(String, String, V)>,
}

struct G<'a> {
    t: Tape<'a>,
    d: Decl,
    /// current values of variables (lists may be reassigned by the program)
    env: BTreeMap<String, V>,
}

struct E {
    text: String,
    val: V,
    ops: usize,
    types: BTreeSet<u8>,
    list_op: bool,
}

impl E {
    fn leaf(text: String, val: V) -> E {
        let mut types = BTreeSet::new();
        types.insert(val.ty());
        E {
            text,
            val,
            ops: 0,
            types,
            list_op: false,
        }
    }
    fn combine(text: String, val: V, parts: &[&E], list_op: bool) -> E {
        let mut types = BTreeSet::new();
        let mut ops = 1;
        let mut lop = list_op;
        for p in parts {
            types.extend(p.types.iter().cloned());
            ops += p.ops;
            lop |= p.list_op;
        }
        E {
            text,
            val,
            ops,
            types,
            list_op: lop,
        }
    }
}

/// `NAME(...)` where the opening parenthesis after the name closes at the very end
fn is_call_form(t: &str) -> bool {
    let name_len = t
        .chars()
        .take_while(|c| c.is_ascii_alphanumeric() || *c == '_')
        .count();
    if name_len == 0 || !t[name_len..].starts_with('(') || !t.ends_with(')') {
        return false;
    }
    let mut depth = 0i32;
    for (i, c) in t.char_indices().skip(name_len) {
        match c {
            '(' => depth += 1,
            ')' => {
                depth -= 1;
                if depth == 0 && i != t.len() - 1 {
                    return false;
                }
            }
            _ => {}
        }
    }
    depth == 0
}

fn atom(e: &E) -> String {
    // every compound operand is parenthesised; a bare identifier never is (that is list syntax)
    if e.ops == 0 {
        match &e.val {
            V::I(i) if *i < 0 && e.text.starts_with('-') => format!("({})", e.text),
            V::F(f) if *f < 0.0 && e.text.starts_with('-') => format!("({})", e.text),
            _ => e.text.clone(),
        }
    } else if is_call_form(&e.text) {
        // function call form
        e.text.clone()
    } else {
        format!("({})", e.text)
    }
}

impl<'a> G<'a> {
    fn all_items(&self, list: &str) -> BTreeSet<(String, String, i32)> {
        self.d
            .lists
            .iter()
            .filter(|(n, _)| n == list)
            .flat_map(|(n, items)| items.iter().map(move |(i, v, _)| (n.clone(), i.clone(), *v)))
            .collect()
    }

    fn int(&mut self, depth: usize) -> Option<E> {
        let k = if depth == 0 { self.t.pick(3) } else { self.t.pick(16) };
        match k {
            0 => {
                let v = self.t.range(0, 12);
                Some(E::leaf(v.to_string(), V::I(v)))
            }
            1 => {
                let v = [-1000, -7, -1, 0, 1, 2, 3, 10, 100, 999, 1000][self.t.pick(11)];
                Some(E::leaf(v.to_string(), V::I(v)))
            }
            2 => {
                let vars: Vec<(String, i32)> = self
                    .env
                    .iter()
                    .filter_map(|(n, v)| if let V::I(i) = v { Some((n.clone(), *i)) } else { None })
                    .collect();
                if vars.is_empty() {
                    return self.int(0);
                }
                let (n, v) = vars[self.t.pick(vars.len())].clone();
                Some(E::leaf(n, V::I(v)))
            }
            3 | 4 | 5 => {
                let a = self.int(depth - 1)?;
                let b = self.int(depth - 1)?;
                let (x, y) = (as_i(&a.val), as_i(&b.val));
                let op = ["+", "-", "*"][self.t.pick(3)];
                let r = match op {
                    "+" => x.checked_add(y),
                    "-" => x.checked_sub(y),
                    _ => x.checked_mul(y),
                }?;
                if r.abs() > 1_000_000 {
                    return None;
                }
                Some(E::combine(format!("{} {op} {}", atom(&a), atom(&b)), V::I(r), &[&a, &b], false))
            }
            6 => {
                let a = self.int(depth - 1)?;
                let d = [1, 2, 3, 4, 5, 7, -2, -3][self.t.pick(8)];
                let x = as_i(&a.val);
                let (op, r) = if self.t.chance(1, 2) { ("/", x / d) } else { ("%", x % d) };
                let dt = if d < 0 { format!("({d})") } else { d.to_string() };
                Some(E::combine(format!("{} {op} {dt}", atom(&a)), V::I(r), &[&a], false))
            }
            7 => {
                let a = self.int(depth - 1)?;
                let x = as_i(&a.val);
                Some(E::combine(format!("-{}", atom(&a)), V::I(x.checked_neg()?), &[&a], false))
            }
            8 => {
                let a = self.int(depth - 1)?;
                let b = self.int(depth - 1)?;
                let (x, y) = (as_i(&a.val), as_i(&b.val));
                let (f, r) = if self.t.chance(1, 2) { ("MIN", x.min(y)) } else { ("MAX", x.max(y)) };
                Some(E::combine(format!("{f}({}, {})", a.text, b.text), V::I(r), &[&a, &b], false))
            }
            9 => {
                // INT of a float, FLOOR/CEILING of an int (identity)
                if self.t.chance(1, 2) {
                    let a = self.float(depth - 1)?;
                    let x = as_f(&a.val);
                    Some(E::combine(format!("INT({})", a.text), V::I(x.trunc() as i32), &[&a], false))
                } else {
                    let a = self.int(depth - 1)?;
                    let f = ["FLOOR", "CEILING", "INT"][self.t.pick(3)];
                    Some(E::combine(format!("{f}({})", a.text), a.val.clone(), &[&a], false))
                }
            }
            10 => {
                // bool arithmetic: bools count as 1 / 0
                let a = self.boolean(depth - 1)?;
                let b = self.int(depth - 1)?;
                let x = if as_b(&a.val) { 1 } else { 0 };
                let r = x + as_i(&b.val);
                Some(E::combine(format!("{} + {}", atom(&a), atom(&b)), V::I(r), &[&a, &b], false))
            }
            11 | 12 => {
                let l = self.list(depth - 1)?;
                let lv = as_l(&l.val);
                if self.t.chance(1, 2) {
                    Some(E::combine(format!("LIST_COUNT({})", l.text), V::I(lv.items.len() as i32), &[&l], true))
                } else {
                    Some(E::combine(format!("LIST_VALUE({})", l.text), V::I(lv.max().unwrap_or(0)), &[&l], true))
                }
            }
            _ => self.int(depth - 1),
        }
    }

    fn float(&mut self, depth: usize) -> Option<E> {
        let k = if depth == 0 { self.t.pick(2) } else { self.t.pick(9) };
        match k {
            0 => {
                let eighths = self.t.range(-40, 80);
                let v = eighths as f32 / 8.0;
                let mut s = format!("{v}");
                if !s.contains('.') {
                    s.push_str(".0");
                }
                Some(E::leaf(s, V::F(v)))
            }
            1 => {
                let vars: Vec<(String, f32)> = self
                    .env
                    .iter()
                    .filter_map(|(n, v)| if let V::F(f) = v { Some((n.clone(), *f)) } else { None })
                    .collect();
                if vars.is_empty() {
                    return self.float(0);
                }
                let (n, v) = vars[self.t.pick(vars.len())].clone();
                Some(E::leaf(n, V::F(v)))
            }
            2 | 3 => {
                // float op float / float op int (int is promoted)
                let a = self.float(depth - 1)?;
                let b = if self.t.chance(1, 2) { self.float(depth - 1)? } else { self.int(depth - 1)? };
                let (x, y) = (as_f(&a.val), as_f(&b.val));
                let op = ["+", "-", "*"][self.t.pick(3)];
                let r = match op {
                    "+" => x + y,
                    "-" => x - y,
                    _ => x * y,
                };
                if !exact(r) {
                    return None;
                }
                let (l, rr) = if self.t.chance(1, 2) { (&a, &b) } else { (&b, &a) };
                let r = if std::ptr::eq(l, &a) || op != "-" { r } else { y - x };
                Some(E::combine(format!("{} {op} {}", atom(l), atom(rr)), V::F(r), &[&a, &b], false))
            }
            4 => {
                let a = self.float(depth - 1)?;
                let d = [2.0f32, 4.0, 0.5, -2.0, 8.0][self.t.pick(5)];
                let x = as_f(&a.val);
                let (op, r) = if self.t.chance(2, 3) { ("/", x / d) } else { ("%", x % d) };
                if !exact(r) {
                    return None;
                }
                let dt = if d < 0.0 { format!("({d:?})") } else { format!("{d:?}") };
                Some(E::combine(format!("{} {op} {dt}", atom(&a)), V::F(r), &[&a], false))
            }
            5 => {
                let a = self.float(depth - 1)?;
                let x = as_f(&a.val);
                let (f, r) = match self.t.pick(3) {
                    0 => ("FLOOR", x.floor()),
                    1 => ("CEILING", x.ceil()),
                    _ => ("FLOAT", x),
                };
                Some(E::combine(format!("{f}({})", a.text), V::F(r), &[&a], false))
            }
            6 => {
                let a = self.int(depth - 1)?;
                Some(E::combine(format!("FLOAT({})", a.text), V::F(as_i(&a.val) as f32), &[&a], false))
            }
            7 => {
                let b = self.t.range(0, 4);
                let x = [2, 3, -2, 10, 1][self.t.pick(5)];
                let r = (x as f32).powf(b as f32);
                if !exact(r) {
                    return None;
                }
                let xt = if x < 0 { format!("({x})") } else { x.to_string() };
                let e = E::leaf(format!("POW({xt}, {b})"), V::F(r));
                Some(E { ops: 1, ..e })
            }
            _ => {
                let a = self.float(depth - 1)?;
                let b = self.int(depth - 1)?;
                let (x, y) = (as_f(&a.val), as_f(&b.val));
                let (f, r) = if self.t.chance(1, 2) { ("MIN", x.min(y)) } else { ("MAX", x.max(y)) };
                Some(E::combine(format!("{f}({}, {})", a.text, b.text), V::F(r), &[&a, &b], false))
            }
        }
    }

    fn boolean(&mut self, depth: usize) -> Option<E> {
        let k = if depth == 0 { self.t.pick(2) } else { self.t.pick(16) };
        match k {
            0 => {
                let b = self.t.chance(1, 2);
                Some(E::leaf(b.to_string(), V::B(b)))
            }
            1 => {
                let vars: Vec<(String, bool)> = self
                    .env
                    .iter()
                    .filter_map(|(n, v)| if let V::B(b) = v { Some((n.clone(), *b)) } else { None })
                    .collect();
                if vars.is_empty() {
                    return self.boolean(0);
                }
                let (n, v) = vars[self.t.pick(vars.len())].clone();
                Some(E::leaf(n, V::B(v)))
            }
            2 | 3 => {
                let a = self.int(depth - 1)?;
                let b = self.int(depth - 1)?;
                let (x, y) = (as_i(&a.val), as_i(&b.val));
                let (op, r) = cmp_op(&mut self.t, x as f64, y as f64);
                Some(E::combine(format!("{} {op} {}", atom(&a), atom(&b)), V::B(r), &[&a, &b], false))
            }
            4 => {
                // int compared with float: promoted to float
                let a = self.int(depth - 1)?;
                let b = self.float(depth - 1)?;
                let (op, r) = cmp_op(&mut self.t, as_f(&a.val) as f64, as_f(&b.val) as f64);
                Some(E::combine(format!("{} {op} {}", atom(&a), atom(&b)), V::B(r), &[&a, &b], false))
            }
            5 | 6 => {
                let a = self.boolean(depth - 1)?;
                let b = self.boolean(depth - 1)?;
                let (x, y) = (as_b(&a.val), as_b(&b.val));
                // (`||` is not generated: inside `{...}` it reads as sequence separators)
                let (op, r) = match self.t.pick(3) {
                    0 => ("and", x && y),
                    1 => ("or", x || y),
                    _ => ("&&", x && y),
                };
                Some(E::combine(format!("{} {op} {}", atom(&a), atom(&b)), V::B(r), &[&a, &b], false))
            }
            7 => {
                let a = self.boolean(depth - 1)?;
                Some(E::combine(format!("not {}", atom(&a)), V::B(!as_b(&a.val)), &[&a], false))
            }
            8 => {
                // numbers as truth values: non-zero is true
                let a = self.int(depth - 1)?;
                let b = self.boolean(depth - 1)?;
                let x = as_i(&a.val) != 0;
                let (op, r) = if self.t.chance(1, 2) { ("and", x && as_b(&b.val)) } else { ("or", x || as_b(&b.val)) };
                Some(E::combine(format!("{} {op} {}", atom(&a), atom(&b)), V::B(r), &[&a, &b], false))
            }
            9 => {
                let a = self.string(depth - 1)?;
                let b = self.string(depth - 1)?;
                let (x, y) = (as_s(&a.val), as_s(&b.val));
                let (op, r) = match self.t.pick(4) {
                    0 => ("==", x == y),
                    1 => ("!=", x != y),
                    2 => ("?", x.contains(&y)),
                    _ => ("!?", !x.contains(&y)),
                };
                Some(E::combine(format!("{} {op} {}", atom(&a), atom(&b)), V::B(r), &[&a, &b], false))
            }
            14 | 15 => {
                // floats as truth values: non-zero is true; an int or bool beside a float is
                // promoted to float first (zero operands are made likely: `0.0 or x`)
                let a = if self.t.chance(1, 3) { E::leaf("0.0".to_string(), V::F(0.0)) } else { self.float(depth - 1)? };
                let x = as_f(&a.val) != 0.0;
                if self.t.chance(1, 6) {
                    return Some(E::combine(format!("not {}", atom(&a)), V::B(!x), &[&a], false));
                }
                let b = match self.t.pick(4) {
                    0 => self.float(depth - 1)?,
                    1 => self.int(depth - 1)?,
                    2 => E::leaf("0".to_string(), V::I(0)),
                    _ => self.boolean(depth - 1)?,
                };
                let y = match &b.val {
                    V::F(f) => *f != 0.0,
                    V::I(i) => *i != 0,
                    v => as_b(v),
                };
                let (l, r, lx, rx) = if self.t.chance(1, 2) { (&a, &b, x, y) } else { (&b, &a, y, x) };
                let (op, res) = match self.t.pick(3) {
                    0 => ("and", lx && rx),
                    1 => ("or", lx || rx),
                    _ => ("&&", lx && rx),
                };
                Some(E::combine(format!("{} {op} {}", atom(l), atom(r)), V::B(res), &[&a, &b], false))
            }
            10 | 11 | 12 => {
                let a = self.list(depth - 1)?;
                let b = self.list(depth - 1)?;
                let (x, y) = (as_l(&a.val), as_l(&b.val));
                let op = ["?", "!?", "==", "!=", "<", ">", "<=", ">="][self.t.pick(8)];
                let contains = !x.items.is_empty() && !y.items.is_empty() && y.items.is_subset(&x.items);
                let r = match op {
                    "?" => contains,
                    "!?" => !contains,
                    "==" => x.items == y.items,
                    "!=" => x.items != y.items,
                    ">" => {
                        if x.items.is_empty() {
                            false
                        } else if y.items.is_empty() {
                            true
                        } else {
                            x.min().unwrap() > y.max().unwrap()
                        }
                    }
                    ">=" => {
                        if x.items.is_empty() {
                            false
                        } else if y.items.is_empty() {
                            true
                        } else {
                            x.min().unwrap() >= y.min().unwrap() && x.max().unwrap() >= y.max().unwrap()
                        }
                    }
                    "<" => {
                        if y.items.is_empty() {
                            false
                        } else if x.items.is_empty() {
                            true
                        } else {
                            x.max().unwrap() < y.min().unwrap()
                        }
                    }
                    _ => {
                        if y.items.is_empty() {
                            false
                        } else if x.items.is_empty() {
                            true
                        } else {
                            x.max().unwrap() <= y.max().unwrap() && x.min().unwrap() <= y.min().unwrap()
                        }
                    }
                };
                Some(E::combine(format!("{} {op} {}", atom(&a), atom(&b)), V::B(r), &[&a, &b], true))
            }
            _ => {
                // a list as a truth value: non-empty is true
                let a = self.list(depth - 1)?;
                let b = self.boolean(depth - 1)?;
                let x = !as_l(&a.val).items.is_empty();
                let (op, r) = if self.t.chance(1, 2) { ("and", x && as_b(&b.val)) } else { ("or", x || as_b(&b.val)) };
                Some(E::combine(format!("{} {op} {}", atom(&a), atom(&b)), V::B(r), &[&a, &b], true))
            }
        }
    }

    fn string(&mut self, depth: usize) -> Option<E> {
        const W: &[&str] = &["ab", "b", "abc", "x y", "", "Ink", "n", "ca"];
        let k = if depth == 0 { self.t.pick(2) } else { self.t.pick(6) };
        match k {
            0 => {
                let w = W[self.t.pick(W.len())];
                Some(E::leaf(format!("\"{w}\""), V::S(w.to_string())))
            }
            1 => {
                let vars: Vec<(String, String)> = self
                    .env
                    .iter()
                    .filter_map(|(n, v)| if let V::S(s) = v { Some((n.clone(), s.clone())) } else { None })
                    .collect();
                if vars.is_empty() {
                    return self.string(0);
                }
                let (n, v) = vars[self.t.pick(vars.len())].clone();
                Some(E::leaf(n, V::S(v)))
            }
            2 | 3 => {
                let a = self.string(depth - 1)?;
                let b = self.string(depth - 1)?;
                let r = format!("{}{}", as_s(&a.val), as_s(&b.val));
                Some(E::combine(format!("{} + {}", atom(&a), atom(&b)), V::S(r), &[&a, &b], false))
            }
            4 => {
                // string + number / number + string: the number is turned into text
                let a = self.string(depth - 1)?;
                let b = if self.t.chance(1, 2) { self.int(depth - 1)? } else { self.float(depth - 1)? };
                if self.t.chance(1, 2) {
                    let r = format!("{}{}", as_s(&a.val), b.val.print());
                    Some(E::combine(format!("{} + {}", atom(&a), atom(&b)), V::S(r), &[&a, &b], false))
                } else {
                    let r = format!("{}{}", b.val.print(), as_s(&a.val));
                    Some(E::combine(format!("{} + {}", atom(&b), atom(&a)), V::S(r), &[&a, &b], false))
                }
            }
            5 => {
                let a = self.string(depth - 1)?;
                let b = self.boolean(depth - 1)?;
                let r = format!("{}{}", as_s(&a.val), b.val.print());
                Some(E::combine(format!("{} + {}", atom(&a), atom(&b)), V::S(r), &[&a, &b], false))
            }
            // (string + list is not generated: binary operators with exactly one list operand
            // are an error in Ink, except list +/- int and and/or)
            _ => self.string(depth - 1),
        }
    }

    fn list(&mut self, depth: usize) -> Option<E> {
        if self.d.lists.is_empty() {
            return None;
        }
        let k = if depth == 0 { self.t.pick(5) } else { self.t.pick(18) };
        match k {
            0 => {
                // a qualified item
                let (ln, items) = self.d.lists[self.t.pick(self.d.lists.len())].clone();
                let (it, v, _) = items[self.t.pick(items.len())].clone();
                let mut l = ListV::empty();
                l.items.insert((ln.clone(), it.clone(), v));
                Some(E::leaf(format!("{ln}.{it}"), V::L(l)))
            }
            1 => {
                // literal (possibly a tie set, possibly empty)
                let n = self.t.pick(4);
                let mut l = ListV::empty();
                let mut names = vec![];
                for _ in 0..n {
                    let (ln, items) = self.d.lists[self.t.pick(self.d.lists.len())].clone();
                    let (it, v, _) = items[self.t.pick(items.len())].clone();
                    if l.items.insert((ln.clone(), it.clone(), v)) {
                        names.push(format!("{ln}.{it}"));
                    }
                }
                Some(E::leaf(format!("({})", names.join(", ")), V::L(l)))
            }
            2 => {
                let vars: Vec<(String, ListV)> = self
                    .env
                    .iter()
                    .filter_map(|(n, v)| if let V::L(l) = v { Some((n.clone(), l.clone())) } else { None })
                    .collect();
                if vars.is_empty() {
                    return self.list(0);
                }
                let (n, v) = vars[self.t.pick(vars.len())].clone();
                Some(E::leaf(n, V::L(v)))
            }
            3 => {
                // ListName() : empty list that knows its origin
                let (ln, _) = self.d.lists[self.t.pick(self.d.lists.len())].clone();
                let mut l = ListV::empty();
                l.origins.insert(ln.clone());
                let e = E::leaf(format!("{ln}()"), V::L(l));
                Some(E { ops: 1, list_op: true, ..e })
            }
            4 => {
                // ListName(n) : the item with that value, or nothing
                let (ln, items) = self.d.lists[self.t.pick(self.d.lists.len())].clone();
                let n = self.t.range(0, 7);
                let mut l = ListV::empty();
                for (it, v, _) in &items {
                    if *v == n {
                        l.items.insert((ln.clone(), it.clone(), *v));
                    }
                }
                // a value no item has gives an empty list (its origins are not relied upon)
                let e = E::leaf(format!("{ln}({n})"), V::L(l));
                Some(E { ops: 1, list_op: true, ..e })
            }
            5 | 6 | 7 | 8 => {
                let a = self.list(depth - 1)?;
                let b = self.list(depth - 1)?;
                let (x, y) = (as_l(&a.val), as_l(&b.val));
                let op = ["+", "-", "^"][self.t.pick(3)];
                let mut r = ListV::empty();
                match op {
                    "+" => {
                        r.items = x.items.union(&y.items).cloned().collect();
                        r.origins = x.origin_names();
                    }
                    "-" => {
                        r.items = x.items.difference(&y.items).cloned().collect();
                        r.origins = x.origin_names();
                    }
                    _ => {
                        r.items = x.items.intersection(&y.items).cloned().collect();
                    }
                }
                Some(E::combine(format!("{} {op} {}", atom(&a), atom(&b)), V::L(r), &[&a, &b], true))
            }
            9 | 10 => {
                // list + int / list - int : every item moves within its own list
                let a = self.list(depth - 1)?;
                let n = self.t.range(0, 3);
                let x = as_l(&a.val);
                let plus = self.t.chance(1, 2);
                let mut r = ListV::empty();
                for (ln, _it, v) in &x.items {
                    let target = if plus { v + n } else { v - n };
                    for cand in self.all_items(ln) {
                        if cand.2 == target {
                            r.items.insert(cand);
                        }
                    }
                }
                let op = if plus { "+" } else { "-" };
                Some(E::combine(format!("{} {op} {n}", atom(&a)), V::L(r), &[&a], true))
            }
            11 => {
                let a = self.list(depth - 1)?;
                let x = as_l(&a.val);
                let (f, pick) = if self.t.chance(1, 2) { ("LIST_MIN", x.min()) } else { ("LIST_MAX", x.max()) };
                // ties: several items may have the extreme value; any of them is acceptable, so
                // only use this where the extreme is unique
                let mut r = ListV::empty();
                if let Some(v) = pick {
                    let tied: Vec<_> = x.items.iter().filter(|i| i.2 == v).collect();
                    if tied.len() != 1 {
                        return None;
                    }
                    r.items.insert(tied[0].clone());
                }
                Some(E::combine(format!("{f}({})", a.text), V::L(r), &[&a], true))
            }
            12 | 13 => {
                let a = self.list(depth - 1)?;
                let x = as_l(&a.val);
                let mut all = BTreeSet::new();
                for o in x.origin_names() {
                    all.extend(self.all_items(&o));
                }
                let mut r = ListV::empty();
                if self.t.chance(1, 2) {
                    r.items = all;
                    Some(E::combine(format!("LIST_ALL({})", a.text), V::L(r), &[&a], true))
                } else {
                    r.items = all.difference(&x.items).cloned().collect();
                    Some(E::combine(format!("LIST_INVERT({})", a.text), V::L(r), &[&a], true))
                }
            }
            14 => {
                let a = self.list(depth - 1)?;
                let x = as_l(&a.val);
                let lo = self.t.range(0, 3);
                let hi = lo + self.t.range(0, 4);
                let mut r = ListV::empty();
                r.items = x.items.iter().filter(|i| i.2 >= lo && i.2 <= hi).cloned().collect();
                // the range of an empty list is a plain empty list; otherwise the origins are kept
                if !x.items.is_empty() {
                    r.origins = x.origin_names();
                }
                Some(E::combine(format!("LIST_RANGE({}, {lo}, {hi})", a.text), V::L(r), &[&a], true))
            }
            15 => {
                // list-valued bounds: the lower bound counts with its smallest item, the upper
                // bound with its largest (both bounds non-empty lists)
                let a = self.list(depth - 1)?;
                let lo_e = self.list(depth - 1)?;
                let hi_e = self.list(depth - 1)?;
                let x = as_l(&a.val);
                let (Some(lo), Some(hi)) = (as_l(&lo_e.val).min(), as_l(&hi_e.val).max()) else {
                    return Some(a);
                };
                let mut r = ListV::empty();
                r.items = x.items.iter().filter(|i| i.2 >= lo && i.2 <= hi).cloned().collect();
                if !x.items.is_empty() {
                    r.origins = x.origin_names();
                }
                Some(E::combine(
                    format!("LIST_RANGE({}, {}, {})", a.text, lo_e.text, hi_e.text),
                    V::L(r),
                    &[&a, &lo_e, &hi_e],
                    true,
                ))
            }
            _ => self.list(depth - 1),
        }
    }

    fn any(&mut self, depth: usize) -> Option<E> {
        match self.t.pick(10) {
            0 | 1 => self.int(depth),
            2 => self.float(depth),
            3 | 4 => self.boolean(depth),
            5 => self.string(depth),
            _ => self.list(depth),
        }
    }
}

fn as_i(v: &V) -> i32 {
    match v {
        V::I(i) => *i,
        V::B(b) => *b as i32,
        _ => 0,
    }
}
fn as_f(v: &V) -> f32 {
    match v {
        V::F(f) => *f,
        V::I(i) => *i as f32,
        V::B(b) => (*b as i32) as f32,
        _ => 0.0,
    }
}
fn as_b(v: &V) -> bool {
    match v {
        V::B(b) => *b,
        V::I(i) => *i != 0,
        _ => false,
    }
}
fn as_s(v: &V) -> String {
    match v {
        V::S(s) => s.clone(),
        o => o.print(),
    }
}
fn as_l(v: &V) -> ListV {
    match v {
        V::L(l) => l.clone(),
        _ => ListV::empty(),
    }
}
fn exact(f: f32) -> bool {
    f.is_finite() && f.abs() < 100_000.0 && (f * 64.0).fract() == 0.0
}
fn cmp_op(t: &mut Tape, x: f64, y: f64) -> (&'static str, bool) {
    match t.pick(6) {
        0 => ("==", x == y),
        1 => ("!=", x != y),
        2 => ("<", x < y),
        3 => (">", x > y),
        4 => ("<=", x <= y),
        _ => (">=", x >= y),
    }
}

pub struct Built7 {
    pub src: String,
    /// (expression text, expected value, non-trivial)
    pub exprs: Vec<(String, V, bool)>,
    /// expected lines, in order; `None` = free line (not compared)
    pub lines: Vec<String>,
    /// expected final values of the out variables
    pub outs: Vec<(String, V)>,
    pub choices: usize,
}

pub fn build7(tape: &[u16]) -> Built7 {
    let mut t = Tape::new(tape);
    // declarations
    let nl = 2 + t.pick(3);
    let mut lists = vec![];
    let shared_names = t.chance(1, 2);
    for li in 0..nl {
        let ni = 2 + t.pick(4);
        let mut items = vec![];
        let mut v = t.pick(2) as i32;
        for j in 0..ni {
            v += 1 + t.pick(2) as i32;
            let name = if shared_names { format!("i{}", j + 1) } else { format!("{}{}", (b'a' + li as u8) as char, j + 1) };
            items.push((name, v, t.chance(1, 3)));
        }
        lists.push((format!("L{}", (b'A' + li as u8) as char), items));
    }
    let mut g = G {
        t,
        d: Decl { lists, vars: vec![] },
        env: BTreeMap::new(),
    };
    // variables
    let nv = 3 + g.t.pick(6);
    for i in 0..nv {
        let name = format!("v{i}");
        let e = match g.t.pick(6) {
            0 | 1 => g.int(0),
            2 => g.float(0),
            3 => g.boolean(0),
            4 => g.string(0),
            _ => {
                // list variable: literal or the LIST itself (its initially selected items)
                if g.t.chance(1, 2) {
                    g.list(0)
                } else {
                    let (ln, items) = g.d.lists[g.t.pick(g.d.lists.len())].clone();
                    let mut l = ListV::empty();
                    for (it, v, sel) in &items {
                        if *sel {
                            l.items.insert((ln.clone(), it.clone(), *v));
                        }
                    }
                    l.origins.insert(ln.clone());
                    Some(E::leaf(ln, V::L(l)))
                }
            }
        };
        let Some(e) = e else { continue };
        // literals only in VAR initialisers (no variable references)
        if g.env.contains_key(&e.text) && !g.d.lists.iter().any(|(n, _)| *n == e.text) {
            continue;
        }
        g.env.insert(name.clone(), e.val.clone());
        g.d.vars.push((name, e.text, e.val));
    }
    let mut src = String::new();
    for (ln, items) in &g.d.lists {
        let its: Vec<String> = items
            .iter()
            .map(|(n, v, sel)| if *sel { format!("({n} = {v})") } else { format!("{n} = {v}") })
            .collect();
        src.push_str(&format!("LIST {ln} = {}\n", its.join(", ")));
    }
    // As in inklecate, a VAR initial value is a constant (number, string, list literal, name);
    // anything else (e.g. `LA(0)`) is assigned by the first statements of the story.
    let mut late_init = String::new();
    for (n, text, _) in &g.d.vars {
        let constant = !text.contains('(') || text.starts_with('(');
        if constant {
            src.push_str(&format!("VAR {n} = {text}\n"));
        } else {
            src.push_str(&format!("VAR {n} = 0\n"));
            late_init.push_str(&format!("~ {n} = {text}\n"));
        }
    }
    let ne = 8 + g.t.pick(13);
    for i in 0..ne {
        src.push_str(&format!("VAR o{i} = 0\n"));
    }
    let mut exprs = vec![];
    let mut lines = vec![];
    let mut outs = vec![];
    let mut choices = 0;
    let mut body = late_init;
    let mut i = 0;
    let mut attempts = 0;
    while i < ne && attempts < 200 {
        attempts += 1;
        let depth = 1 + g.t.pick(4);
        let Some(e) = g.any(depth) else { continue };
        let nt = (e.ops >= 2 && e.types.len() >= 2) || e.list_op;
        body.push_str(&format!("~ o{i} = {}\n", e.text));
        body.push_str(&format!("E{i} [{{o{i}}}] [{{{}}}]\n", e.text));
        lines.push(format!("E{i} [{}] [{}]", e.val.print(), e.val.print()));
        outs.push((format!("o{i}"), e.val.clone()));
        exprs.push((e.text.clone(), e.val.clone(), nt));
        i += 1;
        // now and then: clear a list variable right before a choice point, inspect it after
        if g.t.chance(1, 5) {
            let lvars: Vec<String> = g.env.iter().filter(|(_, v)| matches!(v, V::L(_))).map(|(n, _)| n.clone()).collect();
            if !lvars.is_empty() {
                let v = lvars[g.t.pick(lvars.len())].clone();
                let old = as_l(&g.env[&v]);
                let mut cleared = ListV::empty();
                cleared.origins = old.origin_names();
                g.env.insert(v.clone(), V::L(cleared.clone()));
                body.push_str(&format!("~ {v} = ()\n"));
                let mut all = BTreeSet::new();
                for o in cleared.origin_names() {
                    all.extend(g.all_items(&o));
                }
                let allv = ListV { items: all, origins: BTreeSet::new() };
                if g.t.chance(2, 3) {
                    body.push_str(&format!("* [next {choices}]\n"));
                    body.push_str(&format!("    After {choices}: [{{LIST_ALL({v})}}] [{{LIST_COUNT(LIST_INVERT({v}))}}] [{{{v}}}]\n-\n"));
                    lines.push(format!("After {choices}: [{}] [{}] []", allv.print(), allv.items.len()));
                    choices += 1;
                } else {
                    body.push_str(&format!("Cleared {v}: [{{LIST_ALL({v})}}] [{{{v}}}]\n"));
                    lines.push(format!("Cleared {v}: [{}] []", allv.print()));
                }
            }
        }
    }
    src.push_str(&body);
    src.push_str("-> END\n");
    Built7 {
        src,
        exprs,
        lines,
        outs,
        choices,
    }
}

pub fn exec(case: &J, acc: &mut Acc) -> Result<(), Fail> {
    inflight(case);
    let tape: Vec<u16> = case["tape"]
        .as_array()
        .map(|a| a.iter().filter_map(|x| x.as_u64().map(|v| v as u16)).collect())
        .unwrap_or_default();
    let b = build7(&tape);
    let shown = json!({"source": b.src});
    let fail = |key: &str, msg: String| {
        let mut c = case.clone();
        c["shown"] = shown.clone();
        Fail::violation(key, msg, c)
    };
    let (json_text, meta) = match compile_src(&b.src) {
        Ok(x) => x,
        Err(e) => {
            return Err(fail("expression-program-rejected", format!("the compiler rejects a well-typed expression program: {e}")));
        }
    };
    for (text, _, nt) in &b.exprs {
        acc.eval();
        if *nt {
            acc.nontrivial(fnv(text));
        }
    }
    let r = guard(|| {
        let mut h = Host::new(&json_text, meta.clone(), &HostCfg::default()).map_err(|e| e.to_string())?;
        for _ in 0..(b.choices + 2) {
            h.apply(&HostOp::ContinueMax);
            if h.story.get_current_choices().is_empty() {
                break;
            }
            h.apply(&HostOp::Choose(0));
        }
        let outs: Vec<(String, String)> = b
            .outs
            .iter()
            .map(|(n, _)| (n.clone(), render_opt_value(&h.story.get_variable(n))))
            .collect();
        Ok::<_, String>((h.trace.clone(), outs))
    });
    let (trace, outs) = match r {
        Err(p) => {
            return Err(fail(&format!("panic@{}", p.site()), format!("evaluating expressions panicked: {} ({})", p.msg, p.site())));
        }
        Ok(Err(e)) => return Err(fail("story-new-failed", format!("Story::new failed on an expression program: {e}"))),
        Ok(Ok(x)) => x,
    };
    let got: Vec<String> = trace
        .iter()
        .filter_map(|o| match o {
            Obs::Line { text, .. } => Some(text.trim_end_matches('\n').to_string()),
            Obs::Err { msg, .. } => Some(format!("<error: {}>", msg.split("The first issue was:").last().unwrap_or(msg).trim())),
            _ => None,
        })
        .collect();
    for (i, want) in b.lines.iter().enumerate() {
        // the engine collapses runs of spaces and trims: compare modulo that
        let norm = |s: &str| s.split_whitespace().collect::<Vec<_>>().join(" ");
        match got.get(i) {
            Some(g) if norm(g) == norm(want) => {}
            other => {
                let ex = want
                    .strip_prefix('E')
                    .and_then(|r| r.split(' ').next())
                    .and_then(|n| n.parse::<usize>().ok())
                    .and_then(|n| b.exprs.get(n))
                    .map(|e| e.0.clone())
                    .unwrap_or_default();
                return Err(fail(
                    "expression-value-differs",
                    format!("line {i}: expected {want:?}, the story shows {:?} (expression: {ex})", other),
                ));
            }
        }
    }
    for ((name, want), (_, got)) in b.outs.iter().zip(outs.iter()) {
        let w = want.render();
        let ok = match want {
            // an empty list's remembered origins are compared only through LIST_ALL/INVERT output
            V::L(l) if l.items.is_empty() => got.starts_with("L:[]"),
            _ => *got == w,
        };
        if !ok {
            return Err(fail(
                "expression-stored-value-differs",
                format!("get_variable({name}) = {got}, expected {w}"),
            ));
        }
    }
    Ok(())
}

pub fn run(env: &Env) -> i32 {
    let mut rep = Report::new("exploration", RULE);
    rep.assumptions = vec![
        "the reference evaluator is the trusted base: coercion order bool < int < float < list < string, truncating int division, remainder with the dividend's sign, POW as float, list algebra over (origin, item, value) triples, list comparisons on min/max, empty-list rules of the reference engine".into(),
        "where the chosen item is open under ties (LIST_MIN/LIST_MAX with several extreme items) the construct is not generated".into(),
        "all floats are dyadic rationals with exact results, so values are compared exactly".into(),
    ];
    if let Some(p) = &env.replay {
        return match load_replay_case(p) {
            Ok((_, case)) => {
                let mut acc = Acc::default();
                if let Err(f) = exec(&case, &mut acc) {
                    rep.fails.push(f);
                }
                rep.acc.merge(acc);
                finish(env, rep)
            }
            Err(e) => {
                println!("cannot load replay: {e}");
                2
            }
        };
    }
    replay_saved(env, &mut rep, &exec);
    let n = env.cases(40000, 400000);
    let r = run_cases(
        env,
        1,
        n,
        || proptest::collection::vec(proptest::num::u16::ANY, 0..900),
        |tape: &Vec<u16>, acc: &mut Acc| {
            let case = json!({"tape": tape});
            acc.sample(|| json!({"source": build7(tape).src}));
            exec(&case, acc)
        },
    );
    rep.absorb(r);
    finish(env, rep)
}
