//! Case runner (parallel proptest runners), evidence, known findings, replay files.
use proptest::strategy::Strategy;
use proptest::test_runner::{Config, RngAlgorithm, RngSeed, TestCaseError, TestError, TestRunner};
use serde_json::{Value as J, json};
use std::collections::{BTreeMap, BTreeSet};
use std::path::PathBuf;
use std::sync::Mutex;
use std::sync::atomic::{AtomicBool, Ordering};
use std::time::Instant;

#[derive(Debug, Clone, Copy, PartialEq)]
pub enum Tier {
    Quick,
    Thorough,
}

impl Tier {
    pub fn name(&self) -> &'static str {
        match self {
            Tier::Quick => "quick",
            Tier::Thorough => "thorough",
        }
    }
    pub fn pick(&self, quick: usize, thorough: usize) -> usize {
        match self {
            Tier::Quick => quick,
            Tier::Thorough => thorough,
        }
    }
}

#[derive(Debug, Clone)]
pub struct Known {
    pub status: String,
    pub property: String,
    pub key: String,
    pub what: String,
    pub replay: Option<String>,
}

pub struct Env {
    pub prop: String,
    pub tier: Tier,
    pub seed: u64,
    pub verif: PathBuf,
    pub replay: Option<PathBuf>,
    pub started: Instant,
    pub known: Vec<Known>,
    pub threads: usize,
    pub profile: String,
    /// scale factor for case counts (VERIF_SCALE, default 1.0); used by sensitivity runs
    pub scale: f64,
    /// running as a child of another inkcheck (other build variant): report on stdout
    pub child: bool,
    /// stack size of the case-runner threads (MiB)
    pub stack_mb: usize,
}

impl Env {
    pub fn known_for(&self, key: &str) -> Option<&Known> {
        self.known
            .iter()
            .find(|k| k.status == "known" && k.property == self.prop && k.key == key)
    }
    pub fn cases(&self, quick: usize, thorough: usize) -> usize {
        ((self.tier.pick(quick, thorough) as f64) * self.scale).ceil() as usize
    }
}

pub fn load_known(verif: &std::path::Path) -> Vec<Known> {
    let p = verif.join("known_findings.jsonl");
    let mut v = vec![];
    if let Ok(s) = std::fs::read_to_string(p) {
        for line in s.lines() {
            let line = line.trim();
            if line.is_empty() || line.starts_with('#') {
                continue;
            }
            if let Ok(j) = serde_json::from_str::<J>(line) {
                v.push(Known {
                    status: j["status"].as_str().unwrap_or("").to_string(),
                    property: j["property"].as_str().unwrap_or("").to_string(),
                    key: j["key"].as_str().unwrap_or("").to_string(),
                    what: j["what"].as_str().unwrap_or("").to_string(),
                    replay: j["replay"].as_str().map(|s| s.to_string()),
                });
            }
        }
    }
    v
}

#[derive(Debug, Clone, PartialEq)]
pub enum FailKind {
    Violation,
    /// the harness itself misbehaved (never reported as a violation)
    Harness,
}

#[derive(Debug, Clone)]
pub struct Fail {
    pub kind: FailKind,
    /// identifies the specific failing thing (panic site, or mismatch class)
    pub key: String,
    pub msg: String,
    /// self-contained replayable case
    pub case: J,
}

impl Fail {
    pub fn violation(key: impl Into<String>, msg: impl Into<String>, case: J) -> Fail {
        Fail {
            kind: FailKind::Violation,
            key: key.into(),
            msg: msg.into(),
            case,
        }
    }
    pub fn harness(msg: impl Into<String>) -> Fail {
        Fail {
            kind: FailKind::Harness,
            key: "harness".into(),
            msg: msg.into(),
            case: J::Null,
        }
    }
}

/// Per-thread accumulator, merged at the end.
#[derive(Default, Debug)]
pub struct Acc {
    pub frozen: bool,
    pub evaluations: u64,
    pub nontrivial: BTreeSet<u64>,
    pub classes: BTreeMap<String, u64>,
    pub samples: Vec<J>,
    pub discards: BTreeMap<String, u64>,
    pub known_hits: BTreeMap<String, u64>,
    pub extra: BTreeMap<String, u64>,
}

impl Acc {
    pub fn eval(&mut self) {
        if !self.frozen {
            self.evaluations += 1;
        }
    }
    pub fn evals(&mut self, n: u64) {
        if !self.frozen {
            self.evaluations += n;
        }
    }
    pub fn nontrivial(&mut self, h: u64) {
        if !self.frozen {
            self.nontrivial.insert(h);
        }
    }
    pub fn class(&mut self, c: &str) {
        if !self.frozen {
            *self.classes.entry(c.to_string()).or_insert(0) += 1;
        }
    }
    pub fn classn(&mut self, c: &str, n: u64) {
        if !self.frozen && n > 0 {
            *self.classes.entry(c.to_string()).or_insert(0) += n;
        }
    }
    pub fn discard(&mut self, why: &str) {
        if !self.frozen {
            *self.discards.entry(why.to_string()).or_insert(0) += 1;
        }
    }
    pub fn sample(&mut self, s: impl FnOnce() -> J) {
        if !self.frozen && self.samples.len() < 3 {
            self.samples.push(s());
        }
    }
    pub fn merge(&mut self, o: Acc) {
        self.evaluations += o.evaluations;
        self.nontrivial.extend(o.nontrivial);
        for (k, v) in o.classes {
            *self.classes.entry(k).or_insert(0) += v;
        }
        for (k, v) in o.discards {
            *self.discards.entry(k).or_insert(0) += v;
        }
        for (k, v) in o.known_hits {
            *self.known_hits.entry(k).or_insert(0) += v;
        }
        for (k, v) in o.extra {
            *self.extra.entry(k).or_insert(0) += v;
        }
        for s in o.samples {
            if self.samples.len() < 5 {
                self.samples.push(s);
            }
        }
    }
}

pub struct RunResult {
    pub acc: Acc,
    pub fails: Vec<Fail>,
}

pub fn mix(a: u64, b: u64) -> u64 {
    let mut x = a ^ b.wrapping_mul(0x9E3779B97F4A7C15);
    x ^= x >> 31;
    x = x.wrapping_mul(0xBF58476D1CE4E5B9);
    x ^= x >> 29;
    x
}

pub fn seed_bytes(seed: u64, stream: u64) -> [u8; 32] {
    let mut out = [0u8; 32];
    let mut s = mix(seed, stream);
    for chunk in out.chunks_mut(8) {
        s = mix(s, 0xA5A5_5A5A_1234_5678);
        chunk.copy_from_slice(&s.to_le_bytes());
    }
    out
}

/// Values that are (partly) made of generator tapes; used by the tape-aware shrinker.
pub trait Tapes: Clone {
    fn tapes(&self) -> Vec<Vec<u16>>;
    fn with_tapes(&self, t: Vec<Vec<u16>>) -> Self;
}

impl Tapes for Vec<u16> {
    fn tapes(&self) -> Vec<Vec<u16>> {
        vec![self.clone()]
    }
    fn with_tapes(&self, mut t: Vec<Vec<u16>>) -> Self {
        t.remove(0)
    }
}

impl<A: Clone, T: Tapes> Tapes for (A, T) {
    fn tapes(&self) -> Vec<Vec<u16>> {
        self.1.tapes()
    }
    fn with_tapes(&self, t: Vec<Vec<u16>>) -> Self {
        (self.0.clone(), self.1.with_tapes(t))
    }
}

/// Tape-aware shrinking. `fails` must return true when the candidate still fails in the
/// same way. Budget = maximum number of candidate evaluations.
pub fn shrink_tapes<V: Tapes>(v: V, budget: usize, fails: &mut dyn FnMut(&V) -> bool) -> V {
    let mut best = v;
    let mut used = 0usize;
    let mut progress = true;
    while progress && used < budget {
        progress = false;
        let nt = best.tapes().len();
        // work on the last tape first (histories), then the program
        for ti in (0..nt).rev() {
            // 1. truncate (binary search on the length)
            let mut lo = 0usize;
            let mut hi = best.tapes()[ti].len();
            while lo < hi && used < budget {
                let mid = (lo + hi) / 2;
                let mut t = best.tapes();
                t[ti].truncate(mid);
                let cand = best.with_tapes(t);
                used += 1;
                if fails(&cand) {
                    best = cand;
                    hi = mid;
                    progress = true;
                } else {
                    lo = mid + 1;
                }
            }
            // 2. zero blocks, 3. delete blocks
            for pass in 0..2 {
                let mut size = (best.tapes()[ti].len() / 2).max(1);
                loop {
                    let mut i = 0;
                    while i < best.tapes()[ti].len() && used < budget {
                        let mut t = best.tapes();
                        let end = (i + size).min(t[ti].len());
                        let changed = if pass == 0 {
                            let mut ch = false;
                            for x in t[ti][i..end].iter_mut() {
                                if *x != 0 {
                                    *x = 0;
                                    ch = true;
                                }
                            }
                            ch
                        } else {
                            t[ti].drain(i..end);
                            true
                        };
                        if changed {
                            let cand = best.with_tapes(t);
                            used += 1;
                            if fails(&cand) {
                                best = cand;
                                progress = true;
                                if pass == 1 {
                                    continue;
                                }
                            }
                        }
                        i += size;
                    }
                    if size == 1 || used >= budget {
                        break;
                    }
                    size /= 2;
                }
            }
            // 4. lower single values (halve)
            let mut i = 0;
            while i < best.tapes()[ti].len() && used < budget {
                let cur = best.tapes()[ti][i];
                if cur > 0 {
                    let mut t = best.tapes();
                    t[ti][i] = cur / 2;
                    let cand = best.with_tapes(t);
                    used += 1;
                    if fails(&cand) {
                        best = cand;
                        progress = true;
                        continue;
                    }
                }
                i += 1;
            }
        }
    }
    best
}

/// Run `total` generated cases over `env.threads` proptest runners. Each runner has its own
/// deterministic RNG stream derived from (VERIF_SEED, leg, thread). A failing case is shrunk
/// by proptest; the shrunk case is re-executed once to obtain its `Fail` record.
pub fn run_cases<V, S, MK, T>(env: &Env, leg: u64, total: usize, mk: MK, test: T) -> RunResult
where
    V: std::fmt::Debug + Tapes,
    S: Strategy<Value = V>,
    MK: Fn() -> S + Sync,
    T: Fn(&V, &mut Acc) -> Result<(), Fail> + Sync,
{
    let threads = env.threads.max(1).min(total.max(1));
    let per = total.div_ceil(threads);
    let merged = Mutex::new(Acc::default());
    let fails: Mutex<Vec<Fail>> = Mutex::new(vec![]);
    let stop = AtomicBool::new(false);
    std::thread::scope(|sc| {
        for t in 0..threads {
            let merged = &merged;
            let fails = &fails;
            let stop = &stop;
            let mk = &mk;
            let test = &test;
            std::thread::Builder::new()
                .stack_size(env.stack_mb << 20)
                .spawn_scoped(sc, move || {
                    let acc = std::cell::RefCell::new(Acc::default());
                    let cfg = Config {
                        cases: per as u32,
                        failure_persistence: None,
                        max_shrink_iters: 200,
                        max_global_rejects: 100_000,
                        rng_seed: RngSeed::Fixed(mix(env.seed, (leg << 16) ^ t as u64)),
                        rng_algorithm: RngAlgorithm::ChaCha,
                        ..Config::default()
                    };
                    let mut runner = TestRunner::new(cfg);
                    let strat = mk();
                    let wrapped = |v: &V, acc: &mut Acc| -> Result<(), Fail> {
                        match test(v, acc) {
                            Ok(()) => Ok(()),
                            Err(f) => {
                                if f.kind == FailKind::Violation && env.known_for(&f.key).is_some() {
                                    if !acc.frozen {
                                        *acc.known_hits.entry(f.key.clone()).or_insert(0) += 1;
                                    }
                                    Ok(())
                                } else {
                                    Err(f)
                                }
                            }
                        }
                    };
                    let r = runner.run(&strat, |v| {
                        if stop.load(Ordering::Relaxed) {
                            return Ok(());
                        }
                        let mut a = acc.borrow_mut();
                        match wrapped(&v, &mut a) {
                            Ok(()) => Ok(()),
                            Err(f) => {
                                a.frozen = true;
                                Err(TestCaseError::fail(f.key))
                            }
                        }
                    });
                    match r {
                        Ok(()) => {}
                        Err(TestError::Fail(reason, minimal)) => {
                            stop.store(true, Ordering::Relaxed);
                            let mut a = Acc {
                                frozen: true,
                                ..Acc::default()
                            };
                            // second shrinking stage: tape-aware passes (truncate, zero blocks,
                            // delete blocks, lower values) that keep the same failure key
                            let minimal = match wrapped(&minimal, &mut a).err() {
                                Some(f0) => shrink_tapes(minimal, 2500, &mut |v: &V| {
                                    let mut a2 = Acc {
                                        frozen: true,
                                        ..Acc::default()
                                    };
                                    matches!(wrapped(v, &mut a2), Err(f) if f.key == f0.key)
                                }),
                                None => minimal,
                            };
                            // re-execute the shrunk case (twice: flaky-harness guard)
                            let f1 = wrapped(&minimal, &mut a).err();
                            let f2 = wrapped(&minimal, &mut a).err();
                            let f = match (f1, f2) {
                                (Some(f), Some(_)) => f,
                                (None, None) | (Some(_), None) | (None, Some(_)) => Fail::harness(format!(
                                    "flaky: shrunk case did not fail reproducibly (reason {reason}; value {minimal:?})"
                                )),
                            };
                            fails.lock().unwrap().push(f);
                        }
                        Err(TestError::Abort(reason)) => {
                            fails
                                .lock()
                                .unwrap()
                                .push(Fail::harness(format!("proptest aborted: {reason}")));
                        }
                    }
                    let mut a = acc.into_inner();
                    a.frozen = false;
                    merged.lock().unwrap().merge(a);
                })
                .unwrap();
        }
    });
    RunResult {
        acc: merged.into_inner().unwrap(),
        fails: fails.into_inner().unwrap(),
    }
}

/// Run a fixed list of cases (enumerations, corpus) in parallel; no shrinking.
pub fn run_list<C, T>(env: &Env, cases: &[C], test: T) -> RunResult
where
    C: Sync,
    T: Fn(&C, &mut Acc) -> Result<(), Fail> + Sync,
{
    let threads = env.threads.max(1).min(cases.len().max(1));
    let merged = Mutex::new(Acc::default());
    let fails: Mutex<Vec<Fail>> = Mutex::new(vec![]);
    let next = std::sync::atomic::AtomicUsize::new(0);
    std::thread::scope(|sc| {
        for _ in 0..threads {
            let merged = &merged;
            let fails = &fails;
            let next = &next;
            let test = &test;
            std::thread::Builder::new()
                .stack_size(env.stack_mb << 20)
                .spawn_scoped(sc, move || {
                    let mut acc = Acc::default();
                    loop {
                        let i = next.fetch_add(1, Ordering::Relaxed);
                        if i >= cases.len() {
                            break;
                        }
                        if let Err(f) = test(&cases[i], &mut acc) {
                            if f.kind == FailKind::Violation && env.known_for(&f.key).is_some() {
                                *acc.known_hits.entry(f.key.clone()).or_insert(0) += 1;
                            } else {
                                let mut fl = fails.lock().unwrap();
                                if !fl.iter().any(|g: &Fail| g.key == f.key) {
                                    fl.push(f);
                                }
                            }
                        }
                    }
                    merged.lock().unwrap().merge(acc);
                })
                .unwrap();
        }
    });
    RunResult {
        acc: merged.into_inner().unwrap(),
        fails: fails.into_inner().unwrap(),
    }
}

// ------------------------------------------------------------------------------------
// reporting

pub struct Report {
    pub acc: Acc,
    pub fails: Vec<Fail>,
    pub level: &'static str,
    pub rule: String,
    pub assumptions: Vec<String>,
    pub extra: serde_json::Map<String, J>,
    pub known_replayed: Vec<(Known, bool)>,
    pub health_errors: Vec<String>,
}

impl Report {
    pub fn new(level: &'static str, rule: &str) -> Report {
        Report {
            acc: Acc::default(),
            fails: vec![],
            level,
            rule: rule.to_string(),
            assumptions: vec![],
            extra: serde_json::Map::new(),
            known_replayed: vec![],
            health_errors: vec![],
        }
    }
    pub fn absorb(&mut self, r: RunResult) {
        self.acc.merge(r.acc);
        self.fails.extend(r.fails);
    }
}

fn short_hash(s: &str) -> String {
    format!("{:016x}", crate::rt::fnv(s))
}

impl Acc {
    pub fn to_json(&self) -> J {
        json!({
            "evaluations": self.evaluations,
            "nontrivial": self.nontrivial.iter().collect::<Vec<_>>(),
            "classes": self.classes,
            "samples": self.samples,
            "discards": self.discards,
            "known_hits": self.known_hits,
            "extra": self.extra,
        })
    }
    pub fn from_json(j: &J) -> Acc {
        let map = |v: &J| -> BTreeMap<String, u64> {
            v.as_object()
                .map(|o| {
                    o.iter()
                        .map(|(k, v)| (k.clone(), v.as_u64().unwrap_or(0)))
                        .collect()
                })
                .unwrap_or_default()
        };
        Acc {
            frozen: false,
            evaluations: j["evaluations"].as_u64().unwrap_or(0),
            nontrivial: j["nontrivial"]
                .as_array()
                .map(|a| a.iter().filter_map(|x| x.as_u64()).collect())
                .unwrap_or_default(),
            classes: map(&j["classes"]),
            samples: j["samples"].as_array().cloned().unwrap_or_default(),
            discards: map(&j["discards"]),
            known_hits: map(&j["known_hits"]),
            extra: map(&j["extra"]),
        }
    }
}

const CHILD_MARK: &str = "@@INKCHECK-CHILD-REPORT@@";

/// Run the same check in another build variant (e.g. "rel/release", "dbg-stream/debug") as a
/// child process and return what it covered and found. `extra_args` are passed through.
pub fn run_child(env: &Env, variant: &str, extra_args: &[&str]) -> Result<RunResult, String> {
    let bin = env.verif.join(".build").join(variant).join("inkcheck");
    if !bin.exists() {
        return Err(format!("build variant missing: {}", bin.display()));
    }
    let mut cmd = std::process::Command::new(&bin);
    cmd.arg(&env.prop)
        .arg("--tier")
        .arg(env.tier.name())
        .arg("--child")
        .args(extra_args)
        .env("VERIF_SEED", (env.seed as i64).to_string())
        .env("VERIF_DIR", &env.verif)
        .env("VERIF_SCALE", env.scale.to_string())
        .env("VERIF_THREADS", env.threads.to_string());
    let out = cmd.output().map_err(|e| e.to_string())?;
    let stdout = String::from_utf8_lossy(&out.stdout);
    for line in stdout.lines() {
        if let Some(rest) = line.strip_prefix(CHILD_MARK) {
            let j: J = serde_json::from_str(rest).map_err(|e| e.to_string())?;
            let acc = Acc::from_json(&j["acc"]);
            let mut fails = vec![];
            for f in j["fails"].as_array().cloned().unwrap_or_default() {
                fails.push(Fail {
                    kind: if f["kind"] == "violation" {
                        FailKind::Violation
                    } else {
                        FailKind::Harness
                    },
                    key: f["key"].as_str().unwrap_or("").to_string(),
                    msg: format!("[{variant}] {}", f["msg"].as_str().unwrap_or("")),
                    case: f["case"].clone(),
                });
            }
            return Ok(RunResult { acc, fails });
        }
    }
    Err(format!(
        "child {variant} gave no report (status {:?}): {}",
        out.status,
        String::from_utf8_lossy(&out.stderr)
            .lines()
            .rev()
            .take(5)
            .collect::<Vec<_>>()
            .join(" | ")
    ))
}

/// Like `run_child`, but the child may die (abort, stack overflow, OOM kill): every case it
/// had in flight is then re-run alone in a fresh child; a case that kills its child again is
/// reported as a violation `abort@<variant>` (key includes the signal/exit status).
pub fn run_child_isolated(env: &Env, variant: &str, extra_args: &[&str]) -> Result<RunResult, String> {
    let bin = env.verif.join(".build").join(variant).join("inkcheck");
    if !bin.exists() {
        return Err(format!("build variant missing: {}", bin.display()));
    }
    let dir = env
        .verif
        .join(".build")
        .join("tmp")
        .join(format!("inflight-{}-{}", std::process::id(), variant.replace('/', "_")));
    let _ = std::fs::remove_dir_all(&dir);
    std::fs::create_dir_all(&dir).map_err(|e| e.to_string())?;
    let spawn = |args: &[&str], inflight: bool| -> Result<std::process::Output, String> {
        let mut cmd = std::process::Command::new(&bin);
        cmd.arg(&env.prop)
            .arg("--tier")
            .arg(env.tier.name())
            .arg("--child")
            .args(args)
            .env("VERIF_SEED", (env.seed as i64).to_string())
            .env("VERIF_DIR", &env.verif)
            .env("VERIF_SCALE", env.scale.to_string())
            .env("VERIF_THREADS", env.threads.to_string());
        if inflight {
            cmd.env("VERIF_INFLIGHT", &dir);
        }
        // watchdog: a child that exceeds its wall-clock budget is killed; that is reported as
        // inconclusive (exit 2), never as a violation
        let limit = std::time::Duration::from_secs(if inflight {
            std::env::var("VERIF_CHILD_TIMEOUT").ok().and_then(|s| s.parse().ok()).unwrap_or(match env.tier {
                Tier::Quick => 900,
                Tier::Thorough => 7200,
            })
        } else {
            60
        });
        cmd.stdout(std::process::Stdio::piped()).stderr(std::process::Stdio::piped());
        let mut child = cmd.spawn().map_err(|e| e.to_string())?;
        let started = Instant::now();
        // drain pipes on threads so the child never blocks on a full pipe
        let mut so = child.stdout.take().unwrap();
        let mut se = child.stderr.take().unwrap();
        let t1 = std::thread::spawn(move || {
            let mut v = vec![];
            let _ = std::io::Read::read_to_end(&mut so, &mut v);
            v
        });
        let t2 = std::thread::spawn(move || {
            let mut v = vec![];
            let _ = std::io::Read::read_to_end(&mut se, &mut v);
            v
        });
        let status = loop {
            match child.try_wait() {
                Ok(Some(st)) => break st,
                Ok(None) => {
                    if started.elapsed() > limit {
                        let _ = child.kill();
                        let st = child.wait().map_err(|e| e.to_string())?;
                        let _ = t1.join();
                        let _ = t2.join();
                        let _ = st;
                        return Err(format!("TIMEOUT after {:?}", limit));
                    }
                    std::thread::sleep(std::time::Duration::from_millis(20));
                }
                Err(e) => return Err(e.to_string()),
            }
        };
        Ok(std::process::Output {
            status,
            stdout: t1.join().unwrap_or_default(),
            stderr: t2.join().unwrap_or_default(),
        })
    };
    let parse = |out: &std::process::Output| -> Option<RunResult> {
        let stdout = String::from_utf8_lossy(&out.stdout);
        for line in stdout.lines() {
            if let Some(rest) = line.strip_prefix(CHILD_MARK) {
                let j: J = serde_json::from_str(rest).ok()?;
                let acc = Acc::from_json(&j["acc"]);
                let mut fails = vec![];
                for f in j["fails"].as_array().cloned().unwrap_or_default() {
                    fails.push(Fail {
                        kind: if f["kind"] == "violation" { FailKind::Violation } else { FailKind::Harness },
                        key: f["key"].as_str().unwrap_or("").to_string(),
                        msg: format!("[{variant}] {}", f["msg"].as_str().unwrap_or("")),
                        case: f["case"].clone(),
                    });
                }
                return Some(RunResult { acc, fails });
            }
        }
        None
    };
    let out = match spawn(extra_args, true) {
        Ok(o) => Some(o),
        Err(e) if e.starts_with("TIMEOUT") => None,
        Err(e) => return Err(e),
    };
    if let Some(out) = &out {
        if let Some(r) = parse(out) {
            let _ = std::fs::remove_dir_all(&dir);
            return Ok(r);
        }
    }
    // the child died or hung: attribute
    let status = out.as_ref().map(|o| format!("{:?}", o.status)).unwrap_or("timeout".into());
    let mut fails = vec![];
    let mut files: Vec<PathBuf> = std::fs::read_dir(&dir)
        .map(|rd| rd.filter_map(|e| e.ok()).map(|e| e.path()).collect())
        .unwrap_or_default();
    files.sort();
    for f in files {
        let Ok(text) = std::fs::read_to_string(&f) else { continue };
        let Ok(case) = serde_json::from_str::<J>(&text) else { continue };
        let replay = dir.join("one.json");
        let _ = std::fs::write(&replay, json!({"property": env.prop, "key": "", "msg": "", "case": case}).to_string());
        let o = match spawn(&["--replay", replay.to_str().unwrap_or("")], false) {
            Ok(o) => o,
            Err(e) if e.starts_with("TIMEOUT") => {
                // inconclusive: keep the input for a human
                let keep = env.verif.join("replays").join(&env.prop);
                let _ = std::fs::create_dir_all(&keep);
                let kp = keep.join(format!("timeout-{}.json", short_hash(&case.to_string())));
                let _ = std::fs::write(&kp, json!({"property": env.prop, "key": "timeout", "msg": "watchdog", "case": case}).to_string());
                fails.push(Fail::harness(format!("[{variant}] watchdog: a single input did not finish within 60 s (saved as {})", kp.display())));
                continue;
            }
            Err(e) => return Err(e),
        };
        if parse(&o).is_none() {
            fails.push(Fail::violation(
                format!("abort@{variant}"),
                format!("[{variant}] the process died ({:?}) while handling this input (stderr: {})", o.status,
                    String::from_utf8_lossy(&o.stderr).lines().rev().take(3).collect::<Vec<_>>().join(" | ")),
                case,
            ));
            break;
        }
    }
    let _ = std::fs::remove_dir_all(&dir);
    if fails.is_empty() {
        return Err(format!("child {variant} died ({status}) and no in-flight case reproduces it alone"));
    }
    Ok(RunResult { acc: Acc::default(), fails })
}

/// Write evidence, print VIOLATION / KNOWN-FINDING lines, return the exit code.
pub fn finish(env: &Env, rep: Report) -> i32 {
    if env.child {
        let fails: Vec<J> = rep
            .fails
            .iter()
            .map(|f| {
                json!({"kind": if f.kind == FailKind::Violation { "violation" } else { "harness" },
                    "key": f.key, "msg": f.msg, "case": f.case})
            })
            .collect();
        println!(
            "{CHILD_MARK}{}",
            json!({"acc": rep.acc.to_json(), "fails": fails})
        );
        return 0;
    }
    let wall = env.started.elapsed().as_secs_f64();
    let mut violations = vec![];
    let mut harness = vec![];
    for f in &rep.fails {
        match f.kind {
            FailKind::Violation => {
                // one report per key (each runner thread may meet the same defect)
                if !violations.iter().any(|v: &Fail| v.key == f.key) {
                    violations.push(f.clone())
                }
            }
            FailKind::Harness => harness.push(f.clone()),
        }
    }
    // replay files
    let mut viol_lines = vec![];
    if env.replay.is_none() {
        for f in &violations {
            let dir = env.verif.join("replays").join(&env.prop).join("new");
            let _ = std::fs::create_dir_all(&dir);
            let p = dir.join(format!("{}.json", short_hash(&format!("{}{}", f.key, f.case))));
            let body = json!({
                "property": env.prop,
                "key": f.key,
                "msg": f.msg,
                "case": f.case,
            });
            let _ = std::fs::write(&p, serde_json::to_string_pretty(&body).unwrap());
            viol_lines.push((f.clone(), p));
        }
    } else {
        for f in &violations {
            viol_lines.push((f.clone(), env.replay.clone().unwrap()));
        }
    }

    let mut cov = serde_json::Map::new();
    cov.insert("evaluations".into(), json!(rep.acc.evaluations));
    cov.insert("distinct_nontrivial".into(), json!(rep.acc.nontrivial.len()));
    cov.insert("rule".into(), json!(rep.rule));
    cov.insert("samples".into(), J::Array(rep.acc.samples.clone()));
    cov.insert("classes".into(), json!(rep.acc.classes));
    cov.insert("discarded".into(), json!(rep.acc.discards));
    cov.insert("excluded_known".into(), json!(rep.acc.known_hits));
    cov.insert(
        "known_findings_replayed".into(),
        J::Array(
            rep.known_replayed
                .iter()
                .map(|(k, still)| json!({"key": k.key, "still_fails": still}))
                .collect(),
        ),
    );
    cov.insert("profile".into(), json!(env.profile));
    cov.insert("threads".into(), json!(env.threads));
    for (k, v) in &rep.acc.extra {
        cov.insert(k.clone(), json!(v));
    }
    for (k, v) in rep.extra.iter() {
        cov.insert(k.clone(), v.clone());
    }
    let ev = json!({
        "property_id": env.prop,
        "tier": env.tier.name(),
        "seed": env.seed,
        "level": rep.level,
        "coverage": J::Object(cov),
        "assumptions": rep.assumptions,
        "wall_s": wall,
        "violations": violations.len(),
    });
    if env.replay.is_none() {
        let dir = env.verif.join("evidence");
        let _ = std::fs::create_dir_all(&dir);
        let _ = std::fs::write(
            dir.join(format!("{}.json", env.prop)),
            serde_json::to_string_pretty(&ev).unwrap(),
        );
    }

    for (k, still) in &rep.known_replayed {
        if *still {
            println!("KNOWN-FINDING: property={} {} [{}]", env.prop, k.what, k.key);
        } else {
            println!(
                "note: listed finding no longer reproduces: property={} {}",
                env.prop, k.key
            );
        }
    }
    println!(
        "{} {} seed={} profile={} evaluations={} distinct_nontrivial={} discards={:?} known_hits={:?} wall={:.1}s",
        env.prop,
        env.tier.name(),
        env.seed,
        env.profile,
        rep.acc.evaluations,
        rep.acc.nontrivial.len(),
        rep.acc.discards,
        rep.acc.known_hits,
        wall
    );
    for (f, p) in &viol_lines {
        println!("  violation key={} msg={}", f.key, f.msg.replace('\n', " | "));
        println!("VIOLATION property={} replay={}", env.prop, p.display());
    }
    if !viol_lines.is_empty() {
        return 1;
    }
    for h in &harness {
        println!("INCONCLUSIVE (harness): {}", h.msg);
    }
    for h in &rep.health_errors {
        println!("INCONCLUSIVE (health): {}", h);
    }
    if !harness.is_empty() || !rep.health_errors.is_empty() {
        return 2;
    }
    0
}

/// Crash attribution: when VERIF_INFLIGHT=<dir> is set, every case is written to
/// <dir>/<thread>.json before it is executed, so that a process killed by a signal
/// (abort, stack overflow, OOM) leaves the in-flight cases behind.
pub fn inflight(case: &J) {
    thread_local! {
        static DIR: Option<String> = std::env::var("VERIF_INFLIGHT").ok();
    }
    DIR.with(|d| {
        if let Some(d) = d {
            let id = format!("{:?}", std::thread::current().id())
                .chars()
                .filter(|c| c.is_ascii_digit())
                .collect::<String>();
            let _ = std::fs::write(format!("{d}/{id}.json"), case.to_string());
        }
    });
}

/// Load the `case` member of a replay file.
pub fn load_replay_case(p: &std::path::Path) -> Result<(String, J), String> {
    let s = std::fs::read_to_string(p).map_err(|e| e.to_string())?;
    let j: J = serde_json::from_str(&s).map_err(|e| e.to_string())?;
    Ok((
        j["key"].as_str().unwrap_or("").to_string(),
        j["case"].clone(),
    ))
}

/// All saved regression cases of a property: /verif/replays/<prop>/*.json (not `new/`).
pub fn saved_cases(env: &Env) -> Vec<(PathBuf, String, J)> {
    let dir = env.verif.join("replays").join(&env.prop);
    let mut v = vec![];
    if let Ok(rd) = std::fs::read_dir(dir) {
        let mut paths: Vec<PathBuf> = rd.filter_map(|e| e.ok()).map(|e| e.path()).collect();
        paths.sort();
        for p in paths {
            if p.extension().map(|e| e == "json").unwrap_or(false) {
                if let Ok((k, c)) = load_replay_case(&p) {
                    v.push((p, k, c));
                }
            }
        }
    }
    v
}

/// Replay tier: run every saved case through `exec`. Saved cases whose key is a listed
/// known finding are expected to fail (KNOWN-FINDING); all others must pass.
pub fn replay_saved(
    env: &Env,
    rep: &mut Report,
    exec: &dyn Fn(&J, &mut Acc) -> Result<(), Fail>,
) {
    for (path, key, case) in saved_cases(env) {
        let mut acc = Acc::default();
        let r = exec(&case, &mut acc);
        rep.acc.classn("replayed_saved_cases", 1);
        let known = env.known_for(&key).cloned();
        match (r, known) {
            (Err(f), Some(k)) if f.key == k.key => {
                if !rep.known_replayed.iter().any(|(kk, _)| kk.key == k.key) {
                    rep.known_replayed.push((k, true));
                }
            }
            (Ok(()), Some(k)) => {
                if !rep.known_replayed.iter().any(|(kk, _)| kk.key == k.key) {
                    rep.known_replayed.push((k, false));
                }
            }
            (Err(f), _) => {
                if f.kind == FailKind::Violation && env.known_for(&f.key).is_some() {
                    let k = env.known_for(&f.key).unwrap().clone();
                    if !rep.known_replayed.iter().any(|(kk, _)| kk.key == k.key) {
                        rep.known_replayed.push((k, true));
                    }
                } else {
                    let mut f = f;
                    f.msg = format!("saved regression {} fails: {}", path.display(), f.msg);
                    rep.fails.push(f);
                }
            }
            (Ok(()), None) => {}
        }
    }
}
