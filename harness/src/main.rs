mod ast;
mod engine;
mod pgen;
mod rt;
mod refint;

mod dev;
mod common;
mod c01;
mod c04;
mod lockstep;
mod c02;
mod c17;
mod c09;
mod c16;
mod c10;
mod c03;
mod c11;
mod c08;
mod c13;
mod c12;
mod mutate;
mod idioms;
mod c15;
mod c19;
mod c14;
mod c07;
mod alloc;
mod c18;
mod resolve;
mod fuzz;
mod c06;
mod c05;
mod c20;

use engine::{Env, Tier};

#[global_allocator]
static GLOBAL: alloc::Counting = alloc::Counting;
use std::path::PathBuf;

fn usage() -> ! {
    eprintln!("usage: inkcheck <C01..C20|dev-*> [--tier quick|thorough] [--replay FILE]");
    std::process::exit(2);
}

fn main() {
    let args: Vec<String> = std::env::args().collect();
    if args.len() < 2 {
        usage();
    }
    let prop = args[1].clone();
    let mut tier = match std::env::var("VERIF_TIER").as_deref() {
        Ok("thorough") => Tier::Thorough,
        _ => Tier::Quick,
    };
    let mut replay = None;
    let mut child = false;
    let mut rest = vec![];
    let mut i = 2;
    while i < args.len() {
        match args[i].as_str() {
            "--tier" => {
                i += 1;
                tier = match args.get(i).map(|s| s.as_str()) {
                    Some("quick") => Tier::Quick,
                    Some("thorough") => Tier::Thorough,
                    _ => usage(),
                };
            }
            "--replay" => {
                i += 1;
                replay = Some(PathBuf::from(args.get(i).cloned().unwrap_or_else(|| usage())));
            }
            "--child" => child = true,
            other => rest.push(other.to_string()),
        }
        i += 1;
    }
    let seed: u64 = std::env::var("VERIF_SEED")
        .ok()
        .and_then(|s| s.trim().parse::<i64>().ok())
        .map(|v| v as u64)
        .unwrap_or(1);
    let verif = PathBuf::from(std::env::var("VERIF_DIR").unwrap_or_else(|_| "/verif".into()));
    let threads = std::env::var("VERIF_THREADS")
        .ok()
        .and_then(|s| s.parse().ok())
        .unwrap_or_else(|| {
            std::thread::available_parallelism()
                .map(|n| n.get())
                .unwrap_or(4)
        });
    let scale = std::env::var("VERIF_SCALE")
        .ok()
        .and_then(|s| s.parse().ok())
        .unwrap_or(1.0);
    let env = Env {
        prop: prop.clone(),
        tier,
        seed,
        known: engine::load_known(&verif),
        verif,
        replay,
        started: std::time::Instant::now(),
        threads,
        profile: if cfg!(debug_assertions) {
            "debug".into()
        } else {
            "release".into()
        },
        scale,
        child,
        stack_mb: if prop == "C15" { 8 } else { 64 },
    };
    rt::install_panic_hook();
    let code = match prop.as_str() {
        "dev-gen" => dev::gen_stats(&env, &rest),
        "dev-show" => dev::show(&env, &rest),
        "dev-run" => dev::run_file(&env, &rest),
        "dev-idioms" => dev::idioms(&env, &rest),
        "dev-find" => dev::find(&env, &rest),
        "dev-load" => dev::load_file(&env, &rest),
        "dev-case" => dev::case_file(&env, &rest),
        "dev-fuzz" => fuzz::dev(&env, &rest),
        "C01" => c01::run(&env),
        "C04" => c04::run(&env),
        "C02" => c02::run(&env),
        "C17" => c17::run(&env),
        "C09" => c09::run(&env),
        "C16" => c16::run(&env),
        "C10" => c10::run(&env),
        "C03" => c03::run(&env, &rest),
        "C11" => c11::run(&env),
        "C08" => c08::run(&env),
        "C13" => c13::run(&env),
        "C12" => c12::run(&env),
        "C15" => c15::run(&env),
        "C19" => c19::run(&env),
        "C14" => c14::run(&env, &rest),
        "C07" => c07::run(&env),
        "C18" => c18::run(&env),
        "C06" => c06::run(&env),
        "C05" => c05::run(&env),
        "C20" => c20::run(&env),
        _ => usage(),
    };
    std::process::exit(code);
}
