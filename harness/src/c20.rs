//! C20 — the command-line tool speaks its protocol and matches the library.
use crate::engine::*;
use crate::pgen::Tape;
use crate::rt::{fnv, guard};
use bladeink::story::Story;
use bladeink::story::errors::{ErrorHandler, ErrorType};
use serde_json::{Value as J, json};
use std::cell::RefCell;
use std::io::Write;
use std::process::{Command, Stdio};
use std::rc::Rc;

const RULE: &str = "generated programs: chains of knots whose text lines, tags, choice texts, choice tags and printed string \
variables are drawn from a hostile vocabulary (double quotes, backslashes, control characters U+0001..U+001F and \
U+007F, tabs, U+2028, BOM, combining and non-BMP characters) x generated input scripts (valid choice numbers, 0, \
out-of-range and negative numbers, words, help, blank lines, quit, '-> knot' to known knots, '-> path' to unknown \
paths containing quotes, backslashes and non-ASCII, early end of input) x {plain, JSON} x {-k, no -k}. Oracle: a \
model of the documented loop (continue while possible, show choices, read a line) driven by the library on the \
same compiled story with the same inputs yields the sequence of lines, tags and choices; JSON mode: standard \
output must be a sequence of well-formed JSON objects, each of a documented kind (text, tags, choices, \
needInput, issues, cmdOutput, end, close, compile-success, export-complete, stats), and its text/tags/choices \
objects must equal the model's sequence; plain mode: standard output must be exactly the model's lines, tag \
lines and numbered choices, separated only by prompts and (after help / end / closed input) one free line. \
Compile mode: the file written by -o is byte-identical to Compiler::with_options(same options).compile; a \
source with a planted error exits non-zero (also in the parse-only statistics mode -s, whose numbers must equal the library's) and reports exactly the library's error text (file name and line \
included when the library supplies them) on stderr (plain) or in an issues object (JSON). Non-trivial = a play \
case whose transcript shows at least one hostile character and one choice, or a compile case; distinct = \
(program, script, mode) hash.";

const PLAIN: &[&str] = &["alpha", "bravo", "charlie", "delta", "echo", "foxtrot", "golf"];
const HOSTILE: &[&str] = &[
    "\"", "say \"hi\"", "\\\\", "back\\\\slash", "\u{1}", "\u{8}", "\u{c}", "\u{1b}[31m", "\u{7f}", "tab\there", "é", "日本語", "😀", "a\u{301}",
    "\u{2028}", "\u{feff}", "\"}", "{\\\"text\\\": 1\\}", "\\n", "'", "</script>", "\u{1f}", "\u{0}",
];

struct Gen<'a, 'b> {
    t: &'a mut Tape<'b>,
    hostile_used: bool,
}

impl Gen<'_, '_> {
    fn atom(&mut self) -> String {
        if self.t.chance(1, 3) {
            self.hostile_used = true;
            HOSTILE[self.t.pick(HOSTILE.len())].to_string()
        } else {
            PLAIN[self.t.pick(PLAIN.len())].to_string()
        }
    }
    fn text(&mut self) -> String {
        let n = 1 + self.t.pick(4);
        let mut v = vec![PLAIN[self.t.pick(PLAIN.len())].to_string()];
        for _ in 0..n {
            v.push(self.atom());
        }
        v.join(" ")
    }
    fn tags(&mut self) -> String {
        let mut s = String::new();
        for _ in 0..self.t.pick(3) {
            s.push_str(" # ");
            s.push_str(&self.atom());
            s.push_str(PLAIN[self.t.pick(PLAIN.len())]);
        }
        s
    }
}

/// (source, knot names)
fn gen_program(t: &mut Tape) -> (String, Vec<String>, bool) {
    let mut g = Gen { t, hostile_used: false };
    let nk = 1 + g.t.pick(4);
    let mut src = String::new();
    let sv = g.text().replace('"', "'");
    src.push_str(&format!("VAR s = \"{}\"\nVAR n = 0\n", sv.replace('\\', "")));
    // a third of the programs start inside a tunnel that offers a choice, and have a knot that
    // ends in `->->`: a `-> knot` typed at that choice abandons the tunnel (the tool jumps with a
    // call-stack reset, as the library call it stands for), so what follows depends on the stack
    let with_tunnel = g.t.chance(1, 3);
    if with_tunnel {
        src.push_str(&format!("{}{}\n-> tun ->\n{}\n-> k0\n", g.text(), g.tags(), g.text()));
    } else {
        src.push_str(&format!("{}{}\n-> k0\n", g.text(), g.tags()));
    }
    let mut names = vec![];
    if with_tunnel {
        names.push("ret".to_string());
        names.push("ret".to_string());
    }
    for k in 0..nk {
        names.push(format!("k{k}"));
        src.push_str(&format!("=== k{k} ===\n"));
        for _ in 0..1 + g.t.pick(3) {
            match g.t.pick(5) {
                0 => src.push_str(&format!("{} {{s}} {{n}}{}\n", g.text(), g.tags())),
                1 => src.push_str(&format!("~ n = n + 1\n{}\n", g.text())),
                _ => src.push_str(&format!("{}{}\n", g.text(), g.tags())),
            }
        }
        let next = if k + 1 < nk { format!("k{}", k + 1) } else { "END".to_string() };
        let nc = g.t.pick(4);
        for c in 0..nc {
            let sticky = if g.t.chance(1, 3) { "+" } else { "*" };
            match g.t.pick(3) {
                0 => src.push_str(&format!("{sticky} [{}{}]\n    {}\n", g.text(), g.tags(), g.text())),
                1 => src.push_str(&format!("{sticky} {} [{}] {}{}\n", g.text(), g.atom(), g.text(), g.tags())),
                _ => src.push_str(&format!("{sticky} {}\n", g.text())),
            }
            if c == 0 && g.t.chance(1, 3) && k > 0 {
                src.push_str(&format!("    -> k{}\n", g.t.pick(k)));
            }
        }
        if nc > 0 {
            src.push_str(&format!("- {}\n", g.text()));
        }
        src.push_str(&format!("-> {next}\n"));
    }
    if with_tunnel {
        src.push_str(&format!("=== tun ===\n{}\n* [{}]\n    {}\n+ [{}]\n    -> tun\n- ->->\n", g.text(), g.text(), g.text(), g.text()));
        src.push_str(&format!("=== ret ===\n{}\n->->\n", g.text()));
    }
    (src, names, g.hostile_used)
}

fn gen_script(t: &mut Tape, knots: &[String]) -> (Vec<String>, bool) {
    let n = t.pick(10);
    let mut v = vec![];
    for _ in 0..n {
        let line = match t.pick(16) {
            0..=6 => format!("{}", 1 + t.pick(3)),
            7 => ["0", "99", "-1", "4294967297", "1.5", " 2 "][t.pick(6)].to_string(),
            8 => ["abc", "1 2", "->", "-> a b", "?"][t.pick(5)].to_string(),
            9 => "help".to_string(),
            10 => ["", "   ", "\t"][t.pick(3)].to_string(),
            11 | 12 => format!("-> {}", knots[t.pick(knots.len())]),
            13 => format!("-> {}", ["nowhere", "k0.nothing", "k\"x", "k\\", "é", "a\u{1}b", "\"}{\"text\":\"x", "K0", "k0.", ".k0", "999"][t.pick(11)]),
            14 => "Help".to_string(),
            _ => "quit".to_string(),
        };
        v.push(line);
    }
    let final_newline = t.chance(3, 4);
    (v, final_newline)
}

// ---------------------------------------------------------------------------------------
// model of the documented player loop, driven by the library

#[derive(Debug, Clone, PartialEq)]
enum Ev {
    Text(String),
    Tags(Vec<String>),
    Choices(Vec<(String, Vec<String>)>),
    Prompt,
    /// one free line of the tool's own wording (help text, end banner, closed-input banner)
    FreeLine,
}

struct Sink;
impl ErrorHandler for Sink {
    fn error(&mut self, _m: &str, _t: ErrorType) {}
}

enum Input {
    Choice(usize),
    Divert(String),
    Help,
    Exit,
    Unknown,
}

/// the documented input grammar: 1-based choice numbers, '-> path', help, quit/exit
fn parse_input(input: &str) -> Input {
    let lower = input.to_lowercase();
    if lower == "quit" || lower == "exit" {
        return Input::Exit;
    }
    if lower == "help" {
        return Input::Help;
    }
    let words: Vec<&str> = input.split_whitespace().collect();
    if words.len() == 2 && words[0] == "->" {
        return Input::Divert(words[1].to_string());
    }
    if let Ok(n) = input.trim().parse::<usize>() {
        if n >= 1 {
            return Input::Choice(n - 1);
        }
    }
    Input::Unknown
}

/// Err(..) = the library itself failed in a way after which the tool's behaviour is not specified
fn model(json_text: &str, script: &[String], keep_open: bool, json_mode: bool) -> Result<Vec<Ev>, String> {
    let mut story = Story::new(json_text).map_err(|e| e.to_string())?;
    story.set_error_handler(Rc::new(RefCell::new(Sink)));
    story.set_allow_external_function_fallbacks(true);
    story.verif_set_fuel(Some(100_000));
    let mut ev = vec![];
    let mut lines = script.iter();
    loop {
        while story.can_continue() {
            let text = story.cont().map_err(|e| format!("cont: {e}"))?;
            let tags = story.get_current_tags().map_err(|e| format!("tags: {e}"))?;
            ev.push(Ev::Text(text));
            if !tags.is_empty() {
                ev.push(Ev::Tags(tags));
            }
        }
        let choices = story.get_current_choices();
        if choices.is_empty() {
            if keep_open {
                ev.push(Ev::FreeLine);
            }
            return Ok(ev);
        }
        ev.push(Ev::Choices(choices.iter().map(|c| (c.text.clone(), c.tags.clone())).collect()));
        loop {
            ev.push(Ev::Prompt);
            let Some(raw) = lines.next() else {
                ev.push(Ev::FreeLine);
                return Ok(ev);
            };
            let trimmed = raw.trim();
            if trimmed.is_empty() {
                continue;
            }
            match parse_input(trimmed) {
                Input::Choice(i) => {
                    if i >= choices.len() {
                        continue;
                    }
                    story.choose_choice_index(i).map_err(|e| format!("choose: {e}"))?;
                    break;
                }
                Input::Divert(p) => {
                    let _ = story.choose_path_string(&p, true, None);
                    break;
                }
                Input::Help => {
                    if !json_mode {
                        ev.push(Ev::FreeLine);
                    }
                }
                Input::Exit => return Ok(ev),
                Input::Unknown => {}
            }
        }
    }
}

// ---------------------------------------------------------------------------------------

struct Run {
    stdout: Vec<u8>,
    stderr: Vec<u8>,
    code: Option<i32>,
}

fn tool_path(env: &Env) -> std::path::PathBuf {
    env.verif.join(".build/cli/debug/rinklecate")
}

fn scratch(env: &Env) -> std::path::PathBuf {
    let id: String = format!("{:?}", std::thread::current().id()).chars().filter(|c| c.is_ascii_digit()).collect();
    let d = env.verif.join(".build/scratch-c20").join(format!("{}-{id}", std::process::id()));
    let _ = std::fs::create_dir_all(&d);
    d
}

fn run_tool(env: &Env, dir: &std::path::Path, args: &[&str], stdin: &[u8]) -> Result<Run, String> {
    let mut child = Command::new(tool_path(env))
        .args(args)
        .current_dir(dir)
        .env("RUST_BACKTRACE", "0")
        .stdin(Stdio::piped())
        .stdout(Stdio::piped())
        .stderr(Stdio::piped())
        .spawn()
        .map_err(|e| format!("cannot start the tool: {e}"))?;
    {
        let mut si = child.stdin.take().unwrap();
        let _ = si.write_all(stdin);
    }
    let out = child.wait_with_output().map_err(|e| e.to_string())?;
    Ok(Run { stdout: out.stdout, stderr: out.stderr, code: out.status.code() })
}

const KINDS: &[&str] = &["text", "tags", "choices", "needInput", "issues", "cmdOutput", "end", "close", "compile-success", "export-complete", "stats"];

/// parse standard output as a sequence of JSON objects of documented kinds
fn parse_stream(out: &[u8]) -> Result<Vec<J>, String> {
    let s = std::str::from_utf8(out).map_err(|e| format!("standard output is not UTF-8: {e}"))?;
    let mut v = vec![];
    let de = serde_json::Deserializer::from_str(s).into_iter::<J>();
    for item in de {
        match item {
            Ok(j) => {
                let Some(o) = j.as_object() else {
                    return Err(format!("a value that is not an object: {j}"));
                };
                if !o.keys().any(|k| KINDS.contains(&k.as_str())) {
                    return Err(format!("an object of no documented kind: {j}"));
                }
                v.push(j);
            }
            Err(e) => {
                let pos = v.len();
                return Err(format!("not well-formed JSON after {pos} objects: {e}"));
            }
        }
    }
    Ok(v)
}

fn shown(evs: &[Ev]) -> Vec<Ev> {
    evs.iter().filter(|e| matches!(e, Ev::Text(_) | Ev::Tags(_) | Ev::Choices(_))).cloned().collect()
}

fn stream_shown(objs: &[J]) -> Result<Vec<Ev>, String> {
    let mut v = vec![];
    for o in objs {
        if let Some(t) = o.get("text") {
            v.push(Ev::Text(t.as_str().ok_or("text is not a string")?.to_string()));
        } else if let Some(t) = o.get("tags") {
            let a = t.as_array().ok_or("tags is not an array")?;
            v.push(Ev::Tags(a.iter().map(|x| x.as_str().unwrap_or("<not a string>").to_string()).collect()));
        } else if let Some(c) = o.get("choices") {
            let a = c.as_array().ok_or("choices is not an array")?;
            let mut cs = vec![];
            for ch in a {
                let text = ch.get("text").and_then(|x| x.as_str()).ok_or("choice without text")?.to_string();
                let tags: Vec<String> = ch
                    .get("tags")
                    .and_then(|x| x.as_array())
                    .map(|a| a.iter().map(|x| x.as_str().unwrap_or("<not a string>").to_string()).collect())
                    .unwrap_or_default();
                cs.push((text, tags));
            }
            v.push(Ev::Choices(cs));
        } else if let Some(i) = o.get("issues") {
            let a = i.as_array().ok_or("issues is not an array")?;
            if a.iter().any(|x| !x.is_string()) {
                return Err("issues holds a non-string".into());
            }
        }
    }
    Ok(v)
}

/// plain mode: standard output must be the model's items, in order, with prompts and free lines
fn match_plain(out: &str, evs: &[Ev]) -> Result<(), String> {
    let mut pos = 0usize;
    for (i, e) in evs.iter().enumerate() {
        let rest = &out[pos..];
        let expect: String = match e {
            Ev::Text(t) => t.clone(),
            Ev::Tags(t) => format!("# tags: {}\n", t.join(", ")),
            Ev::Choices(cs) => {
                let mut s = String::from("\n");
                for (k, (t, tags)) in cs.iter().enumerate() {
                    s.push_str(&format!("{}: {}\n", k + 1, t));
                    if !tags.is_empty() {
                        s.push_str(&format!("# tags: {}\n", tags.join(", ")));
                    }
                }
                s
            }
            Ev::Prompt => "?> ".to_string(),
            Ev::FreeLine => {
                match rest.find('\n') {
                    Some(n) => {
                        pos += n + 1;
                        continue;
                    }
                    None => return Err(format!("item {i}: expected a line of the tool's own, found {:?}", clip(rest))),
                }
            }
        };
        if !rest.starts_with(&expect) {
            return Err(format!("item {i} ({}): expected {:?}, found {:?}", kind(e), clip(&expect), clip(rest)));
        }
        pos += expect.len();
    }
    if pos != out.len() {
        return Err(format!("extra output after the last expected item: {:?}", clip(&out[pos..])));
    }
    Ok(())
}

fn kind(e: &Ev) -> &'static str {
    match e {
        Ev::Text(_) => "line",
        Ev::Tags(_) => "tags",
        Ev::Choices(_) => "choices",
        Ev::Prompt => "prompt",
        Ev::FreeLine => "tool line",
    }
}

fn clip(s: &str) -> String {
    s.chars().take(120).collect()
}

fn compile_lib(src: &str, name: &str) -> Result<String, String> {
    let r = guard(|| {
        bladeink_compiler::Compiler::with_options(bladeink_compiler::CompilerOptions {
            count_all_visits: true,
            source_filename: Some(name.to_string()),
        })
        .compile_with_file_handler(src, |inc| Err(bladeink_compiler::CompilerError::invalid_source(format!("Failed to read included file '{inc}'"))))
    });
    match r {
        Err(p) => Err(format!("PANIC {}", p.site())),
        Ok(Err(e)) => Err(e.to_string()),
        Ok(Ok(j)) => Ok(j),
    }
}

pub fn exec(env: &Env, case: &J, acc: &mut Acc) -> Result<(), Fail> {
    inflight(case);
    let src = case["source"].as_str().unwrap_or("");
    let mode = case["mode"].as_str().unwrap_or("play");
    let json_mode = case["json"].as_bool().unwrap_or(false);
    let keep = case["keep_open"].as_bool().unwrap_or(false);
    let script: Vec<String> = case["script"].as_array().map(|a| a.iter().filter_map(|x| x.as_str()).map(|s| s.to_string()).collect()).unwrap_or_default();
    let final_newline = case["final_newline"].as_bool().unwrap_or(true);
    // without a final newline an empty last script line is not a line at all: the input
    // simply ends after the previous line's newline
    let mut script = script;
    if !final_newline && script.last().map(|l| l.is_empty()).unwrap_or(false) {
        script.pop();
        let case_note = "empty last line without final newline dropped";
        let _ = case_note;
    }
    let final_newline = final_newline || script.len() != case["script"].as_array().map(|a| a.len()).unwrap_or(0);
    let dir = scratch(env);
    let file = "case.ink";
    std::fs::write(dir.join(file), src).map_err(|e| Fail::harness(format!("cannot write scratch file: {e}")))?;
    let _ = std::fs::remove_file(dir.join("out.json"));
    acc.eval();
    let lib = compile_lib(src, file);
    let v = |key: &str, msg: String| Fail::violation(key.to_string(), msg, case.clone());
    let died = |r: &Run| r.code.is_none() || r.code == Some(101) || String::from_utf8_lossy(&r.stderr).contains("panicked at");
    match mode {
        "compile" => {
            let mut args = vec!["-o", "out.json"];
            if json_mode {
                args.push("-j");
            }
            args.push(file);
            let r = run_tool(env, &dir, &args, b"").map_err(Fail::harness)?;
            if died(&r) {
                return Err(v("tool-panic", format!("the tool died while compiling: {}", clip(&String::from_utf8_lossy(&r.stderr)))));
            }
            acc.nontrivial(fnv(&case.to_string()));
            match lib {
                Ok(j) => {
                    acc.class("compile:ok");
                    if r.code != Some(0) {
                        return Err(v("compile-exit", format!("the library compiles this source but the tool exits with {:?}: {}", r.code, clip(&String::from_utf8_lossy(&r.stderr)))));
                    }
                    let written = std::fs::read(dir.join("out.json")).unwrap_or_default();
                    if written != j.as_bytes() {
                        return Err(v("output-bytes", format!("the file written by -o ({} bytes) differs from the library's compiled output ({} bytes)", written.len(), j.len())));
                    }
                    if json_mode {
                        let objs = parse_stream(&r.stdout).map_err(|e| v("json-stream", format!("compile, JSON mode: {e}")))?;
                        if !objs.iter().any(|o| o.get("compile-success") == Some(&json!(true))) {
                            return Err(v("compile-success-missing", "JSON mode: no {\"compile-success\": true} object".into()));
                        }
                    }
                }
                Err(e) => {
                    acc.class("compile:error");
                    if e.starts_with("PANIC") {
                        acc.discard("compiler_panic_is_C06");
                        return Ok(());
                    }
                    if r.code == Some(0) {
                        return Err(v("compile-error-exit-zero", format!("the library rejects this source ({e}) but the tool exits 0")));
                    }
                    if dir.join("out.json").exists() {
                        return Err(v("compile-error-output-written", "an output file was written although compilation failed".into()));
                    }
                    if json_mode {
                        let objs = parse_stream(&r.stdout).map_err(|e| v("json-stream", format!("compile error, JSON mode: {e}")))?;
                        let reported = objs.iter().any(|o| o.get("issues").and_then(|i| i.as_array()).map(|a| a.iter().any(|m| m.as_str().map(|m| m.contains(&e)).unwrap_or(false))).unwrap_or(false));
                        if !reported {
                            return Err(v("compile-error-message", format!("JSON mode: no issues object carries the compiler's message {e:?}; stdout: {}", clip(&String::from_utf8_lossy(&r.stdout)))));
                        }
                        if !objs.iter().any(|o| o.get("compile-success") == Some(&json!(false))) {
                            return Err(v("compile-success-missing", "JSON mode: no {\"compile-success\": false} object".into()));
                        }
                    } else if !String::from_utf8_lossy(&r.stderr).contains(&e) {
                        return Err(v("compile-error-message", format!("stderr does not carry the compiler's message {e:?}: {}", clip(&String::from_utf8_lossy(&r.stderr)))));
                    }
                    if e.contains("case.ink") {
                        acc.class("compile:error_with_file");
                    }
                }
            }
            Ok(())
        }
        "stats" => {
            // -s: parse only; a source the parse-only pipeline rejects must exit non-zero and
            // carry the library's message, an accepted one must exit 0 with the statistics
            let mut args = vec!["-s"];
            if json_mode {
                args.push("-j");
            }
            args.push(file);
            let r = run_tool(env, &dir, &args, b"").map_err(Fail::harness)?;
            if died(&r) {
                return Err(v("tool-panic", format!("the tool died in stats mode: {}", clip(&String::from_utf8_lossy(&r.stderr)))));
            }
            acc.nontrivial(fnv(&case.to_string()));
            let lib_stats = guard(|| {
                bladeink_compiler::Compiler::with_options(bladeink_compiler::CompilerOptions {
                    count_all_visits: true,
                    source_filename: Some(file.to_string()),
                })
                .compile_to_stats_with_file_handler(src, |inc| Err(bladeink_compiler::CompilerError::invalid_source(format!("Failed to read included file '{inc}'"))))
            });
            match lib_stats {
                Err(_) => {
                    acc.discard("compiler_panic_is_C06");
                    Ok(())
                }
                Ok(Ok(st)) => {
                    acc.class("stats:ok");
                    if r.code != Some(0) {
                        return Err(v("stats-exit", format!("the library computes statistics for this source but the tool exits with {:?}", r.code)));
                    }
                    if json_mode {
                        let objs = parse_stream(&r.stdout).map_err(|e| v("json-stream", format!("stats, JSON mode: {e}")))?;
                        let ok = objs.iter().any(|o| o.get("stats").map(|s| s["knots"] == json!(st.knots) && s["choices"] == json!(st.choices) && s["words"] == json!(st.words)).unwrap_or(false));
                        if !ok {
                            return Err(v("stats-values", format!("JSON mode: no stats object with the library's numbers; stdout: {}", clip(&String::from_utf8_lossy(&r.stdout)))));
                        }
                    } else {
                        let out = String::from_utf8_lossy(&r.stdout);
                        if !out.contains(&format!("Knots: {}", st.knots)) || !out.contains(&format!("Choices: {}", st.choices)) {
                            return Err(v("stats-values", format!("plain mode: the statistics differ from the library's: {}", clip(&out))));
                        }
                    }
                    Ok(())
                }
                Ok(Err(e)) => {
                    acc.class("stats:error");
                    let e = e.to_string();
                    if r.code == Some(0) {
                        return Err(v("compile-error-exit-zero", format!("stats mode: the library rejects this source ({e}) but the tool exits 0")));
                    }
                    // the tool reads an included file relative to the source; the message about a
                    // missing include carries the OS error text, so only its beginning is compared
                    let needle: String = e.split("': ").next().unwrap_or(&e).to_string();
                    let shown = if json_mode { String::from_utf8_lossy(&r.stdout).to_string() } else { String::from_utf8_lossy(&r.stderr).to_string() };
                    if json_mode {
                        parse_stream(&r.stdout).map_err(|e| v("json-stream", format!("stats error, JSON mode: {e}")))?;
                    }
                    let needle_json = serde_json::to_string(&needle).unwrap_or_default();
                    let needle_json = needle_json.trim_matches('"');
                    if !shown.contains(&needle) && !shown.contains(needle_json) {
                        return Err(v("compile-error-message", format!("stats mode does not carry the compiler's message {needle:?}: {}", clip(&shown))));
                    }
                    Ok(())
                }
            }
        }
        _ => {
            let Ok(j) = lib else {
                acc.discard("compile_error");
                return Ok(());
            };
            let evs = match guard(|| model(&j, &script, keep, json_mode)) {
                Ok(Ok(e)) => e,
                Ok(Err(_)) | Err(_) => {
                    acc.discard("library_fails");
                    return Ok(());
                }
            };
            let mut args = vec!["-p"];
            if json_mode {
                args.push("-j");
            }
            if keep {
                args.push("-k");
            }
            args.push(file);
            let mut input = script.join("\n");
            if final_newline && !script.is_empty() {
                input.push('\n');
            }
            let r = run_tool(env, &dir, &args, input.as_bytes()).map_err(Fail::harness)?;
            if died(&r) {
                return Err(v("tool-panic", format!("the tool died while playing: {}", clip(&String::from_utf8_lossy(&r.stderr)))));
            }
            let sh = shown(&evs);
            let hostile = sh.iter().any(|e| format!("{e:?}").chars().any(|c| c == '\\' || !c.is_ascii())) ;
            if hostile && sh.iter().any(|e| matches!(e, Ev::Choices(_))) {
                acc.nontrivial(fnv(&case.to_string()));
            }
            acc.class(if json_mode { "play:json" } else { "play:plain" });
            if json_mode {
                let objs = parse_stream(&r.stdout).map_err(|e| v("json-stream", format!("play, JSON mode: {e}; stdout: {}", clip(&String::from_utf8_lossy(&r.stdout)))))?;
                // the compile step reports first
                let got = stream_shown(&objs).map_err(|e| v("json-stream", format!("play, JSON mode: {e}")))?;
                if got != sh {
                    let i = got.iter().zip(sh.iter()).position(|(a, b)| a != b).unwrap_or(got.len().min(sh.len()));
                    return Err(v(
                        "transcript-json",
                        format!("JSON mode: item {i} differs from the library: tool {:?}, library {:?}", got.get(i), sh.get(i)),
                    ));
                }
            } else {
                let out = String::from_utf8(r.stdout.clone()).map_err(|e| v("plain-not-utf8", format!("plain mode: standard output is not UTF-8: {e}")))?;
                match_plain(&out, &evs).map_err(|e| v("transcript-plain", format!("plain mode: {e}")))?;
            }
            Ok(())
        }
    }
}

pub fn run(env: &Env) -> i32 {
    let mut rep = Report::new("exploration", RULE);
    rep.assumptions = vec![
        "the model of the player loop restates the documented behaviour (player.rs doc comments and usage text): 1-based numbers, '-> path', help, quit/exit, blank lines ignored, out-of-range numbers ignored".into(),
        "the tool's own wording (help text, end and closed-input banners, stderr messages during play) is not compared".into(),
        "the tool is rebuilt from /repo's working tree by ./check before the harness runs".into(),
    ];
    if !tool_path(env).exists() {
        rep.health_errors.push(format!("{} not built", tool_path(env).display()));
        return finish(env, rep);
    }
    let exec_env = |case: &J, acc: &mut Acc| exec(env, case, acc);
    if let Some(p) = &env.replay {
        return match load_replay_case(p) {
            Ok((_, case)) => {
                let mut acc = Acc::default();
                if let Err(f) = exec_env(&case, &mut acc) {
                    rep.fails.push(f);
                }
                rep.acc.merge(acc);
                finish(env, rep)
            }
            Err(e) => {
                println!("cannot load replay: {e}");
                2
            }
        };
    }
    replay_saved(env, &mut rep, &exec_env);
    let n = env.cases(3000, 60000);
    let r = run_cases(
        env,
        1,
        n,
        || proptest::collection::vec(proptest::num::u16::ANY, 0..200),
        |tape: &Vec<u16>, acc: &mut Acc| {
            let mut t = Tape::new(tape);
            let variant = t.pick(8);
            let (src, knots, _) = gen_program(&mut t);
            let (script, final_newline) = gen_script(&mut t, &knots);
            let case = json!({"mode": "play", "json": variant & 1 == 1, "keep_open": variant & 2 == 2, "source": src, "script": script, "final_newline": final_newline});
            acc.sample(|| case.clone());
            exec(env, &case, acc)
        },
    );
    rep.absorb(r);
    let n2 = env.cases(800, 15000);
    let r = run_cases(
        env,
        2,
        n2,
        || proptest::collection::vec(proptest::num::u16::ANY, 0..120),
        |tape: &Vec<u16>, acc: &mut Acc| {
            let mut t = Tape::new(tape);
            let json_mode = t.chance(1, 2);
            let plant = t.pick(8);
            let stats_mode = t.chance(1, 3);
            let (mut src, _, _) = gen_program(&mut t);
            match plant {
                0 => src.push_str("-> nowhere_at_all\n"),
                1 => src = format!("{{ unclosed\n{src}"),
                2 => src.push_str("=== k0 ===\nduplicate\n-> END\n"),
                3 => src.push_str("~ undeclared_variable = 1\n"),
                4 => src = src.replacen("-> k0\n", "-> k0\nINCLUDE missing_file.ink\n", 1),
                5 => src.push_str("* [choice\n"),
                _ => {}
            }
            let mode = if stats_mode { "stats" } else { "compile" };
            let case = json!({"mode": mode, "json": json_mode, "source": src});
            exec(env, &case, acc)
        },
    );
    rep.absorb(r);
    let _ = std::fs::remove_dir_all(env.verif.join(".build/scratch-c20"));
    finish(env, rep)
}
