//! C02 — saving and loading a game preserves all future behaviour.
use crate::common::*;
use crate::engine::*;
use crate::lockstep::*;
use crate::pgen::Profile;
use crate::rt::*;
use serde_json::{Value as J, json};

const RULE: &str = "generated core-Ink programs (+lists, RANDOM, shuffles, tunnels, threads, functions, \
fallback choices, externals) and the reference corpus stories, each under a generated host history \
(continue line by line, choose, flow switches/removal, path jumps, set_variable, observers, \
evaluate_function); at EVERY position between two host calls the story is saved, the text is loaded into \
a freshly constructed story, and the restored story is driven through the rest of the history plus a tail \
of continues/choices in lockstep with the original: immediate view (can_continue, text, tags, choices, \
globals, visit counts), every later observation, final view and final canonical save must be equal, and \
re-saving right after the load must give a canonically equal save. Non-trivial save point = its JSON has \
call-stack depth > 1, or > 1 thread, or a choiceThreads entry, or > 1 flow, or a list variable, or \
previousRandom != 0, or pending output text; distinct = hash(program, history prefix). A third leg runs the same \
oracle over a float-extremes program family (four float globals, generated assignments that overflow to \
infinities, cancel them or are undefined), where the one known finding (NaN restored as 0.0) lives.";

fn profile() -> Profile {
    Profile {
        lists: true,
        random: true,
        shuffles: true,
        externals: true,
        ..Profile::default()
    }
}

fn hist_profile() -> HistProfile {
    HistProfile {
        cont: 34,
        cont_max: 6,
        choose: 30,
        save: 0,
        load: 0,
        reset: 1,
        flows: 9,
        choose_path: 4,
        set_var: 3,
        eval: 3,
        observe: 3,
        binds: 0,
        raw_choose: false,
        eval_knots: false,
        max_ops: 12,
    }
}

fn is_registration(op: &HostOp) -> bool {
    matches!(
        op,
        HostOp::Observe { .. } | HostOp::Unobserve { .. } | HostOp::Bind { .. } | HostOp::Unbind(_)
    )
}

pub fn exec(case: &J, acc: &mut Acc) -> Result<(), Fail> {
    inflight(case);
    let (json_text, meta) = case_story(case)?;
    let cfg = cfg_from_json(&case["cfg"]);
    let ops = ops_from_json(&case["ops"]);
    let only_k: Option<usize> = case["save_point"].as_u64().map(|v| v as usize);
    let a = match run_marked(&json_text, &meta, &cfg, &ops, true) {
        Err(p) => return Err(panic_fail(&p, "original run", case)),
        Ok(Err(_)) => {
            acc.discard("story_new_failed");
            return Ok(());
        }
        Ok(Ok(a)) => a,
    };
    if a.fuel_out {
        acc.discard("fuel");
        return Ok(());
    }
    let n = ops.len();
    for k in 0..=n {
        if let Some(ok) = only_k {
            if ok != k {
                continue;
            }
        }
        let Some(save) = &a.saves[k] else {
            acc.class("save_state_failed");
            continue;
        };
        if !a.views[k].errors.is_empty() {
            // an unhandled error is pending in the original; errors are not part of a save
            acc.class("skipped_save_point_with_pending_error");
            continue;
        }
        acc.eval();
        let facts = save_facts(save);
        let mut nt = false;
        for (c, b) in [
            ("save:callstack_depth>1", facts.max_callstack_depth > 1),
            ("save:threads>1", facts.max_threads > 1),
            ("save:choice_threads", facts.choice_threads),
            ("save:flows>1", facts.flows > 1),
            ("save:list_variable", facts.list_vars > 0),
            ("save:previous_random", facts.previous_random_nonzero),
            ("save:pending_output", facts.output_stream > 0),
            ("save:pending_choices", facts.pending_choices > 0),
            ("save:temps", facts.temps > 0),
        ] {
            if b {
                acc.class(c);
                if c != "save:pending_choices" && c != "save:temps" {
                    nt = true;
                }
            }
        }
        if nt {
            acc.nontrivial(fnv(&format!("{}|{}|{k}", json_text.len(), ops_to_json(&ops[..k]))) ^ fnv(&json_text));
        }
        let mut one = case.clone();
        one["save_point"] = json!(k);
        let r = guard(|| {
            let mut b = Host::new(&json_text, meta.clone(), &cfg).map_err(|e| e.to_string())?;
            for op in ops[..k].iter().filter(|o| is_registration(o)) {
                b.apply(op);
            }
            b.trace.clear();
            b.log.borrow_mut().clear();
            if let Err(e) = b.story.load_state(save) {
                return Ok(Err(format!("load_state rejected a save produced by save_state: {e}")));
            }
            b.last_save = a.last_saves[k].clone();
            b.lines.set(a.lines[k]);
            // re-save before polling anything (get_current_choices refreshes each choice's
            // cached `index`, which is written into saves)
            let resave = b.canonical_save();
            let view0 = b.view();
            b.run(&ops[k..]);
            Ok::<_, String>(Ok((view0, resave, b.trace.clone(), b.view(), b.canonical_save(), b.fuel_exhausted())))
        });
        let (view0, resave, btrace, bview, bsave, bfuel) = match r {
            Err(p) => return Err(panic_fail(&p, "restored story", &one)),
            Ok(Err(_)) => continue,
            Ok(Ok(Err(m))) => return Err(Fail::violation("load-rejected", m, one)),
            Ok(Ok(Ok(x))) => x,
        };
        if let Some(d) = a.views[k].without_diagnostics().diff(&view0.without_diagnostics()) {
            // known finding: JSON has no NaN, a global holding NaN is saved as 0.0 (as in the
            // reference runtime). Keyed on exactly that: every difference is a NaN global
            // restored as 0.0.
            let mut nan0 = a.views[k].without_diagnostics();
            let mut nans = 0;
            for v in nan0.globals.values_mut() {
                if v == "F:NaN" {
                    *v = "F:0.0".into();
                    nans += 1;
                }
            }
            if nans > 0 && nan0.diff(&view0.without_diagnostics()).is_none() {
                return Err(Fail::violation(
                    "nan-global-restored-as-zero",
                    format!("a global holding NaN at save point {k} is 0.0 in the restored story: {d}"),
                    one,
                ));
            }
            return Err(Fail::violation(
                "restored-view-differs",
                format!("right after load_state (save point {k}) the restored story differs from the original: {d}"),
                one,
            ));
        }
        let canon = canonical_json_text(save);
        match &resave {
            Ok(rs) if *rs == canon => {}
            Ok(rs) => {
                return Err(Fail::violation(
                    "resave-differs",
                    format!("saving the loaded story gives a different save (save point {k}): {}", json_diff(&canon, rs)),
                    one,
                ));
            }
            Err(e) => {
                return Err(Fail::violation("resave-failed", format!("save_state failed after load: {e}"), one));
            }
        }
        if bfuel {
            continue;
        }
        let atail = &a.trace[a.marks[k]..];
        // Observer notifications are not compared here: whether an assignment of an equal
        // value notifies depends on object identity in the runtime (as in the reference
        // engine), which a reload legitimately changes; C11 owns observer behaviour.
        if let Some((i, x, y)) = first_diff(&strip_notify(&no_msgs(atail)), &strip_notify(&no_msgs(&btrace))) {
            return Err(Fail::violation(
                "continuation-differs",
                format!("after loading the save taken at position {k} the continuation differs at observation {i}: original {x} / restored {y}"),
                one,
            ));
        }
        if let Some(d) = a.final_view.without_diagnostics().diff(&bview.without_diagnostics()) {
            return Err(Fail::violation(
                "final-view-differs",
                format!("final state differs after loading the save taken at position {k}: {d}"),
                one,
            ));
        }
        if let (Some(fs), Ok(bs)) = (&a.final_save, &bsave) {
            let ca = canonical_json_text(fs);
            if ca != *bs {
                return Err(Fail::violation(
                    "final-save-differs",
                    format!("final saves differ after loading the save taken at position {k}: {}", json_diff(&ca, bs)),
                    one,
                ));
            }
        }
    }
    Ok(())
}

/// first differing path between two canonical JSON texts
pub fn json_diff(a: &str, b: &str) -> String {
    fn go(path: &str, a: &J, b: &J) -> Option<String> {
        match (a, b) {
            (J::Object(x), J::Object(y)) => {
                for (k, v) in x {
                    match y.get(k) {
                        None => return Some(format!("{path}.{k}: present vs missing")),
                        Some(w) => {
                            if let Some(d) = go(&format!("{path}.{k}"), v, w) {
                                return Some(d);
                            }
                        }
                    }
                }
                for k in y.keys() {
                    if !x.contains_key(k) {
                        return Some(format!("{path}.{k}: missing vs present"));
                    }
                }
                None
            }
            (J::Array(x), J::Array(y)) => {
                for (i, v) in x.iter().enumerate() {
                    match y.get(i) {
                        None => return Some(format!("{path}[{i}]: present vs missing")),
                        Some(w) => {
                            if let Some(d) = go(&format!("{path}[{i}]"), v, w) {
                                return Some(d);
                            }
                        }
                    }
                }
                if y.len() > x.len() {
                    return Some(format!("{path}: array lengths {} vs {}", x.len(), y.len()));
                }
                None
            }
            (x, y) => {
                if x == y {
                    None
                } else {
                    Some(format!("{path}: {x} vs {y}"))
                }
            }
        }
    }
    match (serde_json::from_str::<J>(a), serde_json::from_str::<J>(b)) {
        (Ok(x), Ok(y)) => go("$", &x, &y).unwrap_or_else(|| "equal?".into()),
        _ => "unparseable".into(),
    }
}

/// A small family of programs over four float globals: a generated list of assignments from
/// operations that overflow f32 (powers, products), cancel infinities (differences, products
/// with zero) or are undefined (root of a negative number, remainder by zero), with the values
/// printed and offered in choices between them. Values live in globals only.
pub fn float_extremes_source(tape: &[u16]) -> String {
    const INIT: [&str; 6] = ["10.0", "-10.0", "0.0", "1.5", "1000000.0", "-0.5"];
    let at = |i: usize| tape.get(i).copied().unwrap_or(0) as usize;
    let mut s = String::new();
    for g in 0..4 {
        s += &format!("VAR f{g} = {}\n", INIT[at(g) % INIT.len()]);
    }
    s += "-> top\n=== top ===\n";
    let mut i = 4;
    let mut round = 0;
    loop {
        let n = 1 + at(i) % 3;
        i += 1;
        for _ in 0..n {
            let t = at(i) % 4;
            let a = at(i) / 4 % 4;
            let b = at(i) / 16 % 4;
            let e = match at(i) / 64 % 9 {
                0 => format!("POW(f{a}, 60.0)"),
                1 => format!("f{a} * f{b}"),
                2 => format!("f{a} - f{b}"),
                3 => format!("0.0 - f{a}"),
                4 => format!("f{a} * 1000000000000000000000.0"),
                5 => format!("f{a} / 3.0"),
                6 => format!("f{a} + f{b}"),
                7 => format!("POW(f{a}, 0.5)"),
                _ => format!("f{a} % f{b}"),
            };
            s += &format!("~ f{t} = {e}\n");
            i += 1;
        }
        s += &format!("Round {round}: {{f0}} {{f1}} {{f2}} {{f3}}.\n");
        round += 1;
        if i >= tape.len() || round >= 4 {
            break;
        }
        s += &format!("* [on {round}] {{f0 > f1: more|less}}\n* [stay {round}] {{f2 == f2: same|not same}}\n- \n");
    }
    s += "-> END\n";
    s
}

pub fn run(env: &Env) -> i32 {
    let mut rep = Report::new("exploration", RULE);
    rep.assumptions = vec![
        "the restored story is a fresh Story::new of the same JSON with the same host registrations (observers/bindings re-registered before the load, as a host must)".into(),
        "save points where the original holds an unhandled error are skipped (errors are not part of a save)".into(),
        "diagnostic message texts are not compared; their presence and kind are".into(),
        "fuel-bounded (20000 steps); fuel stops are discarded".into(),
    ];
    if let Some(p) = &env.replay {
        return match load_replay_case(p) {
            Ok((_, case)) => {
                let mut acc = Acc::default();
                if let Err(f) = exec(&case, &mut acc) {
                    rep.fails.push(f);
                }
                rep.acc.merge(acc);
                finish(env, rep)
            }
            Err(e) => {
                println!("cannot load replay: {e}");
                2
            }
        };
    }
    replay_saved(env, &mut rep, &exec);

    let prof = profile();
    let hp = hist_profile();
    let n = env.cases(6000, 150000);
    let r = run_cases(
        env,
        1,
        n,
        || case_strategy(1500, 60),
        |gc: &GenCase, acc: &mut Acc| {
            let Some(b) = build_or_discard(&gc.prog, &prof, acc) else {
                return Ok(());
            };
            let mut ops = decode_history(&gc.hist, &b.meta, &hp);
            ops.extend(tail(gc.hist.last().copied().unwrap_or(0) as usize, 2));
            let cfg = HostCfg {
                handler: gc.hist.first().map(|v| v & 1 == 1).unwrap_or(false),
                allow_fallbacks: true,
                ..HostCfg::default()
            };
            for f in b.prog.features() {
                acc.class(&format!("prog:{f}"));
            }
            let case = json!({"source": b.src, "cfg": cfg_to_json(&cfg), "ops": ops_to_json(&ops)});
            acc.sample(|| case.clone());
            exec(&case, acc)
        },
    );
    rep.absorb(r);

    // float extremes: programs whose globals overflow to infinities (and NaN) under generated
    // histories; only globals hold the values, so the NaN finding is keyed exactly
    let n3 = env.cases(1500, 20000);
    let r = run_cases(
        env,
        3,
        n3,
        || (proptest::collection::vec(proptest::num::u16::ANY, 0..24), proptest::collection::vec(proptest::num::u16::ANY, 0..40)),
        |(tape, hist): &(Vec<u16>, Vec<u16>), acc: &mut Acc| {
            let src = float_extremes_source(tape);
            let Ok((_doc, meta)) = compile_src(&src) else {
                acc.discard("compile_failed");
                return Ok(());
            };
            let mut ops = decode_history(hist, &meta, &hp);
            ops.extend(tail(hist.last().copied().unwrap_or(0) as usize, 2));
            let cfg = HostCfg { allow_fallbacks: true, ..HostCfg::default() };
            acc.class("float_extremes_program");
            if src.contains("POW(f") || src.contains("* f") {
                acc.class("float_extremes:overflowing_op");
            }
            let case = json!({"source": src, "cfg": cfg_to_json(&cfg), "ops": ops_to_json(&ops)});
            acc.sample(|| case.clone());
            exec(&case, acc)
        },
    );
    rep.absorb(r);

    // corpus: reference-compiled stories under generated histories
    let docs = corpus_jsons();
    if !docs.is_empty() {
        let nd = docs.len();
        let n2 = env.cases(3000, 60000);
        let r = run_cases(
            env,
            2,
            n2,
            || (0..nd, proptest::collection::vec(proptest::num::u16::ANY, 0..60)),
            |(di, hist): &(usize, Vec<u16>), acc: &mut Acc| {
                let path = docs[*di].display().to_string();
                let Ok(doc) = std::fs::read_to_string(&docs[*di]) else {
                    return Ok(());
                };
                let doc = strip_bom(&doc).to_string();
                let meta = meta_from_json(&doc);
                let mut ops = decode_history(hist, &meta, &hp);
                ops.extend(tail(hist.last().copied().unwrap_or(0) as usize, 3));
                let cfg = HostCfg {
                    handler: hist.first().map(|v| v & 1 == 1).unwrap_or(false),
                    allow_fallbacks: true,
                    ..HostCfg::default()
                };
                acc.class("corpus_story");
                let case = json!({"corpus_file": path, "cfg": cfg_to_json(&cfg), "ops": ops_to_json(&ops)});
                exec(&case, acc)
            },
        );
        rep.absorb(r);
    }
    finish(env, rep)
}
