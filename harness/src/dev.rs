//! Development helpers (not checks): generator statistics and program dumps.
use crate::engine::Env;
use crate::pgen::{Profile, gen_program};
use crate::rt::*;
use std::collections::BTreeMap;
use std::rc::Rc;

pub fn dev_tape(seed: u64, len: usize) -> Vec<u16> {
    let mut s = seed.wrapping_mul(0x9E3779B97F4A7C15) | 1;
    (0..len)
        .map(|_| {
            s ^= s << 13;
            s ^= s >> 7;
            s ^= s << 17;
            (s >> 24) as u16
        })
        .collect()
}

fn profile_named(n: &str) -> Profile {
    match n {
        "rich" => Profile::rich(),
        "faults" => Profile {
            faults: true,
            random: true,
            ..Profile::default()
        },
        _ => Profile::default(),
    }
}

fn norm_msg(m: &str) -> String {
    // strip digits and quoted names to get a message class
    let mut out = String::new();
    let mut in_q = false;
    for c in m.chars() {
        if c == '\'' {
            in_q = !in_q;
            out.push(c);
            continue;
        }
        if in_q {
            continue;
        }
        if c.is_ascii_digit() {
            continue;
        }
        out.push(c);
    }
    out.chars().take(90).collect()
}

pub fn gen_stats(env: &Env, rest: &[String]) -> i32 {
    let n: usize = rest.first().and_then(|s| s.parse().ok()).unwrap_or(500);
    let prof = profile_named(rest.get(1).map(|s| s.as_str()).unwrap_or("default"));
    let mut compile_err: BTreeMap<String, (usize, String)> = BTreeMap::new();
    let mut rt_err: BTreeMap<String, (usize, String)> = BTreeMap::new();
    let mut panics: BTreeMap<String, (usize, String)> = BTreeMap::new();
    let mut feats: BTreeMap<&'static str, usize> = BTreeMap::new();
    let (mut ok, mut lines, mut choices, mut ends, mut fuel) = (0, 0, 0, 0, 0);
    for i in 0..n {
        let tape = dev_tape(env.seed * 1000003 + i as u64, 1500);
        let prog = gen_program(&tape, &prof);
        let src = prog.to_ink();
        let json = match guard(|| compile(&src)) {
            Err(p) => {
                let e = panics.entry(p.site()).or_insert((0, src.clone()));
                e.0 += 1;
                continue;
            }
            Ok(Err(e)) => {
                let en = compile_err.entry(norm_msg(&e)).or_insert((0, format!("{e}\n{src}")));
                en.0 += 1;
                continue;
            }
            Ok(Ok(j)) => j,
        };
        ok += 1;
        for f in prog.features() {
            *feats.entry(f).or_insert(0) += 1;
        }
        let meta = Rc::new(meta_from_json(&json));
        let r = guard(|| {
            let mut h = Host::new(&json, meta.clone(), &HostCfg::default()).unwrap();
            let mut k = i;
            for _ in 0..12 {
                h.apply(&HostOp::ContinueMax);
                k = k.wrapping_mul(31).wrapping_add(7);
                h.apply(&HostOp::ChooseMod(k));
            }
            (h.trace.clone(), h.fuel_exhausted())
        });
        match r {
            Err(p) => {
                let e = panics.entry(p.site() + " " + &p.msg).or_insert((0, src.clone()));
                e.0 += 1;
            }
            Ok((trace, f)) => {
                if f {
                    fuel += 1;
                }
                for o in &trace {
                    match o {
                        Obs::Line { .. } => lines += 1,
                        Obs::Choices(_) => choices += 1,
                        Obs::End => ends += 1,
                        Obs::Err { msg, .. } => {
                            let cls = norm_msg(msg.split("The first issue was:").last().unwrap_or(msg));
                            let e = rt_err.entry(cls).or_insert((0, format!("{msg}\n{src}")));
                            e.0 += 1;
                        }
                        _ => {}
                    }
                }
            }
        }
    }
    println!("programs={n} compiled={ok} lines={lines} choice_points={choices} ends={ends} fuel_exhausted={fuel}");
    println!("features: {feats:?}");
    println!("--- compile errors");
    for (k, (c, ex)) in &compile_err {
        println!("{c:5}  {k}");
        if rest.iter().any(|a| a == "-v") {
            println!("{ex}\n");
        }
    }
    println!("--- runtime errors");
    for (k, (c, ex)) in &rt_err {
        println!("{c:5}  {k}");
        if rest.iter().any(|a| a == "-v") {
            println!("{ex}\n");
        }
    }
    println!("--- panics");
    for (k, (c, ex)) in &panics {
        println!("{c:5}  {k}");
        if rest.iter().any(|a| a == "-v") {
            println!("{ex}\n");
        }
    }
    0
}

pub fn show(env: &Env, rest: &[String]) -> i32 {
    let i: u64 = rest.first().and_then(|s| s.parse().ok()).unwrap_or(0);
    let prof = profile_named(rest.get(1).map(|s| s.as_str()).unwrap_or("default"));
    let tape = dev_tape(env.seed * 1000003 + i, 1500);
    let prog = gen_program(&tape, &prof);
    let src = prog.to_ink();
    println!("{src}");
    match compile(&src) {
        Ok(json) => {
            let meta = Rc::new(meta_from_json(&json));
            println!("meta: {meta:?}");
            let mut h = Host::new(&json, meta, &HostCfg::default()).unwrap();
            for k in 0..8 {
                h.apply(&HostOp::ContinueMax);
                h.apply(&HostOp::ChooseMod(k));
            }
            for o in &h.trace {
                println!("{}", o.show());
            }
        }
        Err(e) => println!("COMPILE ERROR: {e}"),
    }
    0
}

/// dev-run FILE [handler] : compile and play a file, always choosing 0
pub fn run_file(_env: &Env, rest: &[String]) -> i32 {
    let src = std::fs::read_to_string(&rest[0]).unwrap();
    let handler = rest.get(1).map(|s| s == "handler").unwrap_or(false);
    match compile(&src) {
        Ok(json) => {
            if rest.iter().any(|a| a == "-j") {
                println!("{json}");
            }
            let meta = Rc::new(meta_from_json(&json));
            let mut h = Host::new(&json, meta, &HostCfg { handler, allow_fallbacks: true, ..HostCfg::default() }).unwrap();
            for k in 0..10 {
                for _ in 0..30 {
                    if !h.story.can_continue() { break; }
                    h.apply(&HostOp::Continue);
                }
                h.apply(&HostOp::ChooseMod(k * 0));
            }
            for o in &h.trace {
                println!("{}", o.show());
            }
            println!("errors: {:?}", h.story.get_current_errors());
            println!("warnings: {:?}", h.story.get_current_warnings());
        }
        Err(e) => println!("COMPILE ERROR: {e}"),
    }
    0
}

/// dev-load FILE : Story::new on a document, print the result
pub fn load_file(_env: &Env, rest: &[String]) -> i32 {
    let doc = std::fs::read_to_string(&rest[0]).unwrap();
    match bladeink::story::Story::new(doc.trim_end()) {
        Ok(_) => println!("loaded"),
        Err(e) => println!("rejected: {e}"),
    }
    0
}

/// dev-find SUBSTRING [profile] : find a generated program whose play shows an observation
/// containing SUBSTRING, and shrink it
pub fn find(env: &Env, rest: &[String]) -> i32 {
    let needle = rest[0].clone();
    let prof = profile_named(rest.get(1).map(|s| s.as_str()).unwrap_or("default"));
    let shows = |tape: &Vec<u16>| -> bool {
        let prog = gen_program(tape, &prof);
        let src = prog.to_ink();
        let json = match guard(|| compile(&src)) {
            Ok(Ok(j)) => j,
            Ok(Err(e)) => return needle.strip_prefix("COMPILE").map(|n| e.contains(n.trim_start_matches(':'))).unwrap_or(false),
            Err(_) => return needle == "COMPILE",
        };
        let meta = Rc::new(meta_from_json(&json));
        let r = guard(|| {
            let mut h = Host::new(&json, meta.clone(), &HostCfg::default()).unwrap();
            for k in 0..6 {
                h.apply(&HostOp::ContinueMax);
                h.apply(&HostOp::ChooseMod(k));
            }
            h.trace.iter().any(|o| o.show().contains(&needle))
        });
        r.unwrap_or(needle == "PANIC")
    };
    for i in 0..20000u64 {
        let tape = dev_tape(env.seed * 1000003 + i, 1500);
        if shows(&tape) {
            let small = crate::engine::shrink_tapes(tape, 4000, &mut |t: &Vec<u16>| shows(t));
            let prog = gen_program(&small, &prof);
            println!("{}", prog.to_ink());
            return 0;
        }
    }
    println!("not found");
    1
}

/// dev-idioms : compile and play every idiom alone and in pairs
pub fn idioms(_env: &Env, _rest: &[String]) -> i32 {
    let n = crate::idioms::idiom_count();
    let mut bad = 0;
    for i in 0..n {
        for j in 0..n {
            // tape: n=2 idioms -> pick(6)==1 ; then indices
            let enc = |k: usize, m: usize| -> u16 { (((k as u32) << 16) / m as u32 + 1) as u16 };
            let tape = vec![enc(1, 6), enc(i, n), enc(j, n), 0];
            let mut t = crate::pgen::Tape::new(&tape);
            let (src, used) = crate::idioms::gen_idiom_program(&mut t);
            match guard(|| compile(&src)) {
                Ok(Ok(json)) => {
                    let meta = Rc::new(meta_from_json(&json));
                    let r = guard(|| {
                        let mut h = Host::new(&json, meta.clone(), &HostCfg { allow_fallbacks: true, ..HostCfg::default() }).unwrap();
                        for k in 0..10 {
                            h.apply(&HostOp::ContinueMax);
                            h.apply(&HostOp::ChooseMod(k));
                        }
                        h.trace.clone()
                    });
                    match r {
                        Ok(tr) => {
                            if j == 0 {
                                let errs: Vec<String> = tr.iter().filter(|o| matches!(o, Obs::Err { .. })).map(|o| o.show()).collect();
                                println!("{:32} lines={} errs={:?}", used[0], tr.iter().filter(|o| matches!(o, Obs::Line { .. })).count(), errs.iter().map(|e| e.chars().rev().take(90).collect::<String>().chars().rev().collect::<String>()).collect::<Vec<_>>());
                            }
                        }
                        Err(p) => {
                            bad += 1;
                            println!("PANIC {used:?} {}", p.site());
                        }
                    }
                }
                Ok(Err(e)) => {
                    bad += 1;
                    if j == 0 { println!("COMPILE ERROR {used:?}: {e}"); }
                }
                Err(p) => {
                    bad += 1;
                    println!("COMPILER PANIC {used:?} {}", p.site());
                }
            }
        }
    }
    println!("bad={bad}");
    0
}

/// dev-case FILE [load-at K] : run the ops of a replay case one by one and print, after each,
/// the observations and a summary of the save (evaluation stack, call stack frames); with
/// `load-at K` the story is replaced after K ops by a fresh one that loaded the save
pub fn case_file(_env: &Env, rest: &[String]) -> i32 {
    let text = std::fs::read_to_string(&rest[0]).unwrap();
    let j: serde_json::Value = serde_json::from_str(&text).unwrap();
    let case = if j.get("case").is_some() { j["case"].clone() } else { j };
    let load_at: Option<usize> = rest.iter().position(|a| a == "load-at").and_then(|i| rest.get(i + 1)).and_then(|v| v.parse().ok());
    let (json_text, meta) = crate::common::case_story(&case).unwrap();
    let cfg = crate::common::cfg_from_json(&case["cfg"]);
    let ops = crate::rt::ops_from_json(&case["ops"]);
    let mut h = Host::new(&json_text, meta.clone(), &cfg).unwrap();
    let summary = |h: &mut Host| {
        match h.story.save_state() {
            Ok(s) => {
                let v: serde_json::Value = serde_json::from_str(&s).unwrap();
                let flow = v["currentFlowName"].as_str().unwrap_or("DEFAULT_FLOW").to_string();
                let threads = &v["flows"][&flow]["callstack"]["threads"];
                let frames: Vec<String> = threads
                    .as_array()
                    .map(|t| t.iter().map(|th| th["callstack"].as_array().map(|c| c.iter().map(|e| format!("{}:{}.{}{}", e["type"], e["cPath"].as_str().unwrap_or("-"), e["idx"], if e["exp"].as_bool().unwrap_or(false) { "!" } else { "" })).collect::<Vec<_>>().join(" > ")).unwrap_or_default()).collect())
                    .unwrap_or_default();
                println!("      evalStack={} frames={:?} out={}", v["evalStack"], frames, v["flows"][&flow]["outputStream"]);
            }
            Err(e) => println!("      save failed: {e}"),
        }
    };
    for (i, op) in ops.iter().enumerate() {
        if load_at == Some(i) {
            let s = h.story.save_state().unwrap();
            let mut f = Host::new(&json_text, meta.clone(), &cfg).unwrap();
            f.story.load_state(&s).unwrap();
            h = f;
            println!("   -- replaced by a fresh story that loaded the save");
        }
        let m = h.trace.len();
        h.apply(op);
        println!("{i}: {}", op.to_json());
        for o in &h.trace[m..] {
            println!("      {}", o.show());
        }
        summary(&mut h);
    }
    0
}
