//! C06 fuzz target: any bytes -> (lossy) text -> compiler. Oracles inside the target:
//! returns (a panic is a crash), an error line lies within the input, a compiled story loads,
//! every emitted reference resolves (independent resolver), compiling twice is identical.
#![no_main]
use libfuzzer_sys::fuzz_target;

#[path = "../../src/resolve.rs"]
#[allow(dead_code)]
mod resolve;

fuzz_target!(|data: &[u8]| {
    let src = String::from_utf8_lossy(data).to_string();
    let compile = || bladeink_compiler::Compiler::new().compile(&src);
    match compile() {
        Err(e) => {
            let line = match &e {
                bladeink_compiler::CompilerError::InvalidSource { line, .. } => *line,
                bladeink_compiler::CompilerError::UnsupportedFeature { line, .. } => *line,
            };
            if let Some(line) = line {
                let n = src.split('\n').count().max(1);
                assert!(line >= 1 && line <= n, "C06 error line {line} outside the input ({n} lines)");
            }
        }
        Ok(json) => {
            let again = compile().expect("C06 second compilation failed");
            assert!(again == json, "C06 compiler-nondeterministic");
            let doc: serde_json::Value = serde_json::from_str(&json).expect("C06 output-not-json");
            bladeink::story::Story::verif_set_construction_fuel(Some(20_000));
            let loaded = bladeink::story::Story::new(&json);
            bladeink::story::Story::verif_set_construction_fuel(None);
            if let Err(e) = loaded {
                panic!("C06 output-does-not-load: {e}");
            }
            let complaints = resolve::check_document(&doc, None);
            if let Some(c) = complaints.first() {
                panic!("C06 unresolved: {} at {}", c.what, c.at);
            }
        }
    }
});
