//! C15 fuzz target: any bytes as a saved state for a fixed multi-feature story. load_state
//! returns Ok or Err; afterwards the story is continued a bounded number of steps, reset and
//! continued again.
#![no_main]
use libfuzzer_sys::fuzz_target;
use bladeink::story::Story;

const INK: &str = include_str!("../fixed_story.ink");

thread_local! {
    static JSON: String = bladeink_compiler::Compiler::new().compile(INK).expect("fixed story compiles");
}

fuzz_target!(|data: &[u8]| {
    let Ok(text) = std::str::from_utf8(data) else { return };
    JSON.with(|json| {
        let mut story = Story::new(json).expect("fixed story loads");
        story.verif_set_story_seed(7);
        story.verif_set_fuel(Some(3_000));
        let _ = story.cont();
        let loaded = story.load_state(text).is_ok();
        if loaded {
            let mut n = 0;
            while story.can_continue() && n < 30 {
                if story.cont().is_err() {
                    break;
                }
                n += 1;
            }
            if !story.get_current_choices().is_empty() {
                let _ = story.choose_choice_index(0);
                let _ = story.cont();
            }
            let _ = story.save_state();
        }
        // a failed (or successful) load never wedges the story: reset gives a playable story
        story.verif_set_fuel(Some(3_000));
        story.reset_state().expect("C15 reset after load_state failed");
        story.verif_set_story_seed(7);
        let line = story.cont().expect("C15 story not playable after reset");
        assert!(line.starts_with("Hello 1 3 a"), "C15 reset after load differs from fresh: {line:?}");
    });
});
