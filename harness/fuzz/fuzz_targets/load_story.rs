//! C15 fuzz target: any bytes as a story document. Story::new returns Ok or Err; an accepted
//! story is played a bounded number of steps (fuel hook) with every choice index 0.
#![no_main]
use libfuzzer_sys::fuzz_target;
use bladeink::story::Story;

fuzz_target!(|data: &[u8]| {
    let Ok(text) = std::str::from_utf8(data) else { return };
    Story::verif_set_construction_fuel(Some(5_000));
    let story = Story::new(text);
    Story::verif_set_construction_fuel(None);
    let Ok(mut story) = story else { return };
    story.verif_set_story_seed(7);
    story.verif_set_fuel(Some(5_000));
    for _ in 0..6 {
        let mut n = 0;
        while story.can_continue() && n < 50 {
            if story.cont().is_err() {
                return;
            }
            let _ = story.get_current_tags();
            n += 1;
        }
        if story.get_current_choices().is_empty() {
            break;
        }
        if story.choose_choice_index(0).is_err() {
            break;
        }
    }
    let _ = story.save_state();
});
