LIST L = (a), b, c
VAR x = 1
VAR l = ()
-> start
=== start ===
~ temp t = 3
Hello {x} {t} {L}.
<- side
* (one) [First]
    -> tunnel ->
    After tunnel.
    -> start
+ [Second] {&a|b} {f(x)}
    ~ x = x + 1
    ~ l += b
    -> start
* -> END
=== side ===
* [Side choice]
    Side. -> DONE
=== tunnel ===
In tunnel.
->->
=== function f(v) ===
~ return v * 2
