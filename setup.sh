#!/bin/bash
# Builds every harness variant once, offline, from files on disk only.
set -u
cd "$(dirname "$0")"
export CARGO_NET_OFFLINE=true
mkdir -p .build
rc=0
( cd harness && CARGO_TARGET_DIR=../.build/dbg cargo build -q ) || rc=1
( cd harness && CARGO_TARGET_DIR=../.build/rel cargo build -q --release ) || rc=1
( cd harness && CARGO_TARGET_DIR=../.build/dbg-stream cargo build -q --features stream ) || rc=1
( cd /repo && CARGO_TARGET_DIR=/verif/.build/cli cargo build -q -p rinklecate --offline ) || rc=1
exit $rc
